//! `replay_window`: the REAL `s2n_quic_dc::path::secret::receiver::State`.
//!   pre <id>    -> ok | err unknown
//!   post <id>   -> ok | err already-exists | err unknown
//!   min_unseen  -> ok <id>
//!   snap        -> ok max=<m|none> marked=<ids remembered by the window, descending>
//!                  (read from the Debug rendering of the state: the only public view of the bitset)
//!   stress <threads> <n> <seed>  -> `threads` real threads offer the same n ids
//!                  base..base+n-1 (n <= 896 so every id stays inside the window whatever the
//!                  schedule) in per-thread shuffled order to ONE fresh State:
//!                  ok accepted=<..> dups=<..> already=<..> unknown=<..> min_unseen=<..>
use crate::{util::*, Component};
use s2n_quic_dc::{
    credentials::{Credentials, Id, KeyId},
    path::secret::receiver,
};
use std::sync::{Arc, Barrier};

pub const NAMES: &[&str] = &["replay_window"];

pub fn make(name: &str) -> Option<Box<dyn Component>> {
    match name {
        "replay_window" => Some(Box::new(Rw { st: receiver::State::new() })),
        _ => None,
    }
}

pub struct Rw {
    st: receiver::State,
}

const KEY_ID_MAX: u64 = (1 << 62) - 1;
const STRESS_MAX_N: u64 = 896;

fn creds(id: u64) -> Option<Credentials> {
    let key_id = KeyId::new(id).ok()?;
    Some(Credentials { id: Id::from([7u8; 16]), key_id })
}

fn res(r: Result<(), receiver::Error>) -> String {
    match r {
        Ok(()) => "ok".into(),
        Err(receiver::Error::AlreadyExists) => "err already-exists".into(),
        Err(receiver::Error::Unknown) => "err unknown".into(),
    }
}

pub fn stress_base(seed: u64) -> u64 {
    ((seed as u128 * 2654435761u128 + 12345) % (1u128 << 61)) as u64
}

/// xorshift-style PRNG: the per-thread offer order only has to differ between threads
pub struct Rng(pub u64);
impl Rng {
    pub fn next(&mut self) -> u64 {
        let mut x = self.0;
        x ^= x << 13;
        x ^= x >> 7;
        x ^= x << 17;
        self.0 = x;
        x
    }
    pub fn shuffle<T>(&mut self, v: &mut [T]) {
        for i in (1..v.len()).rev() {
            let j = (self.next() % (i as u64 + 1)) as usize;
            v.swap(i, j);
        }
    }
}

/// parse `max_seen_key_id: <n>` and the bit list out of `{:?}` of the state
fn snapshot(st: &receiver::State) -> Option<(Option<u64>, Vec<u64>)> {
    let d = format!("{st:?}");
    let m = d.split("max_seen_key_id: ").nth(1)?;
    let m: String = m.chars().take_while(|c| c.is_ascii_digit()).collect();
    let m: u64 = m.parse().ok()?;
    // the BitArray renders as `BitArray<..> { addr: .., head: .., bits: 896, .. } [0, 1, 0, ...]`
    let bits = d.split("seen: ").nth(1)?;
    let open = bits.find('[')?;
    let close = bits[open..].find(']')? + open;
    let body = &bits[open + 1..close];
    let mut idx = Vec::new();
    let mut n = 0u64;
    for c in body.chars() {
        match c {
            '0' => n += 1,
            '1' => {
                idx.push(n);
                n += 1;
            }
            _ => {}
        }
    }
    if m == u64::MAX {
        if !idx.is_empty() {
            return None;
        }
        return Some((None, vec![]));
    }
    let mut ids = Vec::new();
    for i in idx {
        ids.push(m.checked_sub(i)?);
    }
    Some((Some(m), ids))
}

impl Component for Rw {
    fn step(&mut self, t: &[&str]) -> String {
        match t {
            ["pre", v] => {
                let Some(x) = num::<u128>(v) else { return "bad-op".into() };
                if x > KEY_ID_MAX as u128 {
                    return "bad-op".into();
                }
                let Some(c) = creds(x as u64) else { return "bad-op".into() };
                res(self.st.pre_authentication(&c))
            }
            ["post", v] => {
                let Some(x) = num::<u128>(v) else { return "bad-op".into() };
                if x > KEY_ID_MAX as u128 {
                    return "bad-op".into();
                }
                let Some(c) = creds(x as u64) else { return "bad-op".into() };
                res(self.st.post_authentication(&c))
            }
            ["min_unseen"] => format!("ok {}", self.st.minimum_unseen_key_id().as_u64()),
            ["snap"] => match snapshot(&self.st) {
                Some((m, ids)) => format!(
                    "ok max={} marked={}",
                    m.map(|m| m.to_string()).unwrap_or_else(|| "none".into()),
                    list(&ids)
                ),
                None => "err snapshot-unreadable".into(),
            },
            ["stress", th, n, seed] => {
                let (Some(th), Some(n), Some(seed)) = (num::<u64>(th), num::<u64>(n), num::<u64>(seed)) else {
                    return "bad-op".into();
                };
                if !(1..=64).contains(&th) || !(1..=STRESS_MAX_N).contains(&n) || seed >= 1 << 32 {
                    return "bad-op".into();
                }
                let base = stress_base(seed);
                let st = Arc::new(receiver::State::new());
                let barrier = Arc::new(Barrier::new(th as usize));
                let mut hs = Vec::new();
                for t in 0..th {
                    let st = st.clone();
                    let barrier = barrier.clone();
                    hs.push(std::thread::spawn(move || {
                        let mut ids: Vec<u64> = (0..n).map(|i| base + i).collect();
                        Rng(seed * 1000 + t + 1).shuffle(&mut ids);
                        let mut ok = Vec::new();
                        let mut already = 0u64;
                        let mut unknown = 0u64;
                        barrier.wait();
                        for id in ids {
                            let c = creds(id).unwrap();
                            match st.post_authentication(&c) {
                                Ok(()) => ok.push(id),
                                Err(receiver::Error::AlreadyExists) => already += 1,
                                Err(receiver::Error::Unknown) => unknown += 1,
                            }
                        }
                        (ok, already, unknown)
                    }));
                }
                let mut all = Vec::new();
                let mut already = 0;
                let mut unknown = 0;
                for h in hs {
                    let (ok, a, u) = h.join().unwrap();
                    all.extend(ok);
                    already += a;
                    unknown += u;
                }
                all.sort_unstable();
                let accepted = all.len();
                all.dedup();
                let dups = accepted - all.len();
                format!(
                    "ok accepted={accepted} dups={dups} already={already} unknown={unknown} min_unseen={}",
                    st.minimum_unseen_key_id().as_u64()
                )
            }
            _ => "bad-op".into(),
        }
    }
}
