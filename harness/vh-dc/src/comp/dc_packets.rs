//! `dc_packets`: the REAL s2n-quic-dc packet encoders/decoders and the REAL aws-lc keys.
//!
//! Keys come from the production key schedule (`path::secret::schedule::Secret`): one export secret
//! per cipher suite (AES-128-GCM/SHA-256 and AES-256-GCM/SHA-384), `Client` = the sealing side,
//! `Server` = the opening side, a second export secret = "wrong key".
//!   stream/datagram payloads : `application_sealer` / `application_opener`           (AEAD)
//!   stream probes, control   : `control_pair(.., Local)` / `control_pair(.., Remote)` (HMAC, 16-byte tag)
//!   StaleKey/ReplayDetected  : `control_sealer` / `control_opener`                    (HMAC, 16-byte tag)
//!   UnknownPathSecret        : `stateless_reset::Signer::sign(credential id)`         (16-byte token)
//!
//! packet specs (positional tokens; `-` = absent / empty; byte strings hex or `@len,seed`):
//!   stream <suite> <mode app|probe|retx-s|retx-r> <cid> <kid> <sqid|-> <qid> <rel> <bidi> <pn> <rpn>
//!          <nect> <off> <fin|-> <apphdr> <ctrl> <payload>
//!   datagram <suite> <cid> <kid> <port> <pn|-> <nect|-> <apphdr> <ctrl> <payload>
//!   control <suite> <cid> <kid> <sid -|qid,rel,bidi> <sqid|-> <pn> <apphdr> <ctrl>
//!   ups <suite> <cid> <wv> <qid|->
//!   stale <suite> <cid> <wv> <qid|-> <min_key_id>
//!   replay <suite> <cid> <wv> <qid|-> <rejected_key_id>
//! ops:
//!   rt <spec>                 encode, decode, authenticate with the right and with a wrong key
//!   mut <m1,m2,..> <spec>     encode, apply byte mutations (`x<idx>:<xor>` = xor with a non-zero mask, `s<idx>:<val>` = set to
//!                             val, or to !val when the byte already is val; idx mod len), decode through the tag
//!                             dispatcher + authenticate; which layer rejected it
//!   mutscan <x<mask>|s<val>> <spec>   the same for every byte position, summarised
//!   dec <decoder> <suite> <hex>       one decoder on arbitrary bytes (+ authenticate)
//!   fuzz <hex>                every decoder on arbitrary bytes, summarised
//!   mac <stream|secret> <suite> <header hex> <tag len>   HMAC sign / verify with a cut or extended tag
use crate::{util::*, Component};
use s2n_codec::{DecoderBufferMut, DecoderError, EncoderBuffer};
use s2n_quic_core::{
    buffer::{
        reader::{storage::Chunk, Storage},
        writer, Reader,
    },
    dc,
    endpoint::Type,
    varint::VarInt,
};
use s2n_quic_dc::{
    credentials::{self, Credentials},
    crypto::{
        awslc,
        open::{self, Application as _, Control as _},
        seal::{self, Control as _},
    },
    packet::{self, control, datagram, secret_control as sc, stream, WireVersion},
    path::secret::{
        schedule::{Ciphersuite, Initiator, Secret},
        stateless_reset::Signer,
    },
};

pub const NAMES: &[&str] = &["dc_packets"];

pub fn make(name: &str) -> Option<Box<dyn Component>> {
    match name {
        "dc_packets" => Some(Box::new(DcPackets::new())),
        _ => None,
    }
}

const TAG_LEN: usize = 16;

struct Keys {
    app_seal: awslc::seal::Application,
    app_open: awslc::open::Application,
    app_open_wrong: awslc::open::Application,
    ctl_seal: awslc::seal::control::Stream,
    ctl_open: awslc::open::control::Stream,
    ctl_open_wrong: awslc::open::control::Stream,
    sec_seal: awslc::seal::control::Secret,
    sec_open: awslc::open::control::Secret,
    sec_open_wrong: awslc::open::control::Secret,
}

impl Keys {
    fn new(cs: Ciphersuite) -> Self {
        let mat = [0x5au8; 32];
        let mut bad = [0x5au8; 32];
        bad[31] = 0x5b;
        let v = dc::SUPPORTED_VERSIONS[0];
        let local = Secret::new(cs, v, Type::Client, &mat);
        let peer = Secret::new(cs, v, Type::Server, &mat);
        let wrong = Secret::new(cs, v, Type::Server, &bad);
        let kid = VarInt::from_u8(7);
        Keys {
            app_seal: local.application_sealer(kid),
            app_open: peer.application_opener(kid),
            app_open_wrong: wrong.application_opener(kid),
            ctl_seal: local.control_pair(kid, Initiator::Local).0,
            ctl_open: peer.control_pair(kid, Initiator::Remote).1,
            ctl_open_wrong: wrong.control_pair(kid, Initiator::Remote).1,
            sec_seal: local.control_sealer(),
            sec_open: peer.control_opener(),
            sec_open_wrong: wrong.control_opener(),
        }
    }
}

pub struct DcPackets {
    keys: [Keys; 2],
    signer: Signer,
    signer_wrong: Signer,
}

/// a stream payload reader with an arbitrary offset / final offset
struct PayloadReader<'a> {
    offset: VarInt,
    payload: &'a [u8],
    cursor: usize,
    final_offset: Option<VarInt>,
}

impl Storage for PayloadReader<'_> {
    type Error = core::convert::Infallible;

    fn buffered_len(&self) -> usize {
        self.payload.len() - self.cursor
    }

    fn read_chunk(&mut self, watermark: usize) -> Result<Chunk<'_>, Self::Error> {
        let remaining = &self.payload[self.cursor..];
        let len = remaining.len().min(watermark);
        self.cursor += len;
        Ok((&remaining[..len]).into())
    }

    fn partial_copy_into<Dest>(&mut self, dest: &mut Dest) -> Result<Chunk<'_>, Self::Error>
    where
        Dest: writer::Storage + ?Sized,
    {
        self.read_chunk(dest.remaining_capacity())
    }
}

impl Reader for PayloadReader<'_> {
    fn current_offset(&self) -> VarInt {
        self.offset
    }

    fn final_offset(&self) -> Option<VarInt> {
        self.final_offset
    }
}

#[derive(Clone, Copy, PartialEq, Eq, Debug)]
enum Kind {
    Stream,
    Datagram,
    Control,
    Ups,
    Stale,
    Replay,
}

impl Kind {
    fn name(self) -> &'static str {
        match self {
            Kind::Stream => "stream",
            Kind::Datagram => "datagram",
            Kind::Control => "control",
            Kind::Ups => "ups",
            Kind::Stale => "stale",
            Kind::Replay => "replay",
        }
    }
}

/// an encoded packet: wire bytes, length of the cleartext header (everything before the payload)
/// and of the payload; the auth tag is the last 16 bytes
struct Built {
    bytes: Vec<u8>,
    hdr: usize,
    pl: usize,
    suite: usize,
}

enum BuildErr {
    Bad,
    Err(String),
}

pub fn bytes_tok(s: &str) -> Option<Vec<u8>> {
    if let Some(p) = s.strip_prefix('@') {
        let (l, sd) = p.split_once(',')?;
        let len: usize = l.parse().ok()?;
        let seed: usize = sd.parse().ok()?;
        if len > 70000 || seed > 255 {
            return None;
        }
        return Some((0..len).map(|i| ((seed + 7 * i + 13 * (i / 256)) % 256) as u8).collect());
    }
    unhex(s)
}

pub fn vi(s: &str) -> Option<VarInt> {
    let x: u128 = s.parse().ok()?;
    VarInt::new(u64::try_from(x).ok()?).ok()
}

pub fn ovi(s: &str) -> Option<Option<VarInt>> {
    if s == "-" {
        Some(None)
    } else {
        vi(s).map(Some)
    }
}

fn cid_tok(s: &str) -> Option<credentials::Id> {
    let b = unhex(s)?;
    let a: [u8; 16] = b.try_into().ok()?;
    Some(credentials::Id::from(a))
}

fn suite_tok(s: &str) -> Option<usize> {
    match s {
        "128" => Some(0),
        "256" => Some(1),
        _ => None,
    }
}

fn bit(s: &str) -> Option<bool> {
    match s {
        "0" => Some(false),
        "1" => Some(true),
        _ => None,
    }
}

fn ostr(v: Option<VarInt>) -> String {
    match v {
        Some(v) => v.as_u64().to_string(),
        None => "-".into(),
    }
}

fn derr(e: DecoderError) -> &'static str {
    match e {
        DecoderError::UnexpectedEof(_) => "eof",
        DecoderError::UnexpectedBytes(_) => "bytes",
        DecoderError::LengthCapacityExceeded => "capacity",
        DecoderError::InvariantViolation(_) => "invariant",
    }
}

fn oerr(e: open::Error) -> &'static str {
    match e {
        open::Error::InvalidTag => "InvalidTag",
        open::Error::RotationNotSupported => "RotationNotSupported",
        open::Error::MacOnly => "MacOnly",
        open::Error::UnsupportedOperation => "UnsupportedOperation",
        open::Error::SingleUseKey => "SingleUseKey",
        open::Error::ReplayDefinitelyDetected => "ReplayDefinitelyDetected",
        open::Error::ReplayPotentiallyDetected { .. } => "ReplayPotentiallyDetected",
    }
}

fn stream_id_str(id: &stream::Id) -> String {
    format!("{},{},{}", id.queue_id().as_u64(), id.is_reliable as u8, id.is_bidirectional as u8)
}

/// result of decoding (+ authenticating) a byte string
struct Decoded {
    kind: Kind,
    fields: String,
    consumed: usize,
    auth: &'static str,
    payload: Vec<u8>,
}

#[derive(Clone, Copy, PartialEq, Eq)]
enum Which {
    Only(Kind),
    /// `packet::Packet::decode_parameterized_mut` (dispatch on the tag byte)
    Any,
    /// `secret_control::Packet::decode`
    SecretControl,
}

impl DcPackets {
    fn new() -> Self {
        DcPackets {
            keys: [Keys::new(Ciphersuite::AES_GCM_128_SHA256), Keys::new(Ciphersuite::AES_GCM_256_SHA384)],
            signer: Signer::new(b"vh-dc-peer"),
            signer_wrong: Signer::new(b"vh-dc-other"),
        }
    }

    /// parse a packet spec and run the real encoder
    fn build(&self, t: &[&str]) -> Result<Built, BuildErr> {
        use BuildErr::Bad;
        match t {
            ["stream", suite, mode, cid, kid, sqid, qid, rel, bidi, pn, rpn, nect, off, fin, ah, cd, pl] => {
                let suite = suite_tok(suite).ok_or(Bad)?;
                let k = &self.keys[suite];
                let credentials = Credentials { id: cid_tok(cid).ok_or(Bad)?, key_id: vi(kid).ok_or(Bad)? };
                let sqid = ovi(sqid).ok_or(Bad)?;
                let mut id = stream::Id::default().with_queue_id(vi(qid).ok_or(Bad)?).ok_or(Bad)?;
                id.is_reliable = bit(rel).ok_or(Bad)?;
                id.is_bidirectional = bit(bidi).ok_or(Bad)?;
                let pn = vi(pn).ok_or(Bad)?;
                let rpn = vi(rpn).ok_or(Bad)?;
                let nect = vi(nect).ok_or(Bad)?;
                let off = vi(off).ok_or(Bad)?;
                let fin = ovi(fin).ok_or(Bad)?;
                let ah = bytes_tok(ah).ok_or(Bad)?;
                let cd = bytes_tok(cd).ok_or(Bad)?;
                let pl = bytes_tok(pl).ok_or(Bad)?;
                if *mode == "probe" && !pl.is_empty() {
                    return Err(Bad);
                }
                let mut buf = vec![0u8; 128 + ah.len() + cd.len() + pl.len() + 64];
                let mut reader = PayloadReader { offset: off, payload: &pl, cursor: 0, final_offset: fin };
                let ah_len = VarInt::try_from(ah.len()).map_err(|_| Bad)?;
                let cd_len = VarInt::try_from(cd.len()).map_err(|_| Bad)?;
                let len = match *mode {
                    "app" | "retx-s" | "retx-r" => stream::encoder::encode(
                        EncoderBuffer::new(&mut buf),
                        sqid,
                        id,
                        pn,
                        nect,
                        ah_len,
                        &mut &ah[..],
                        cd_len,
                        &&cd[..],
                        &mut reader,
                        &k.app_seal,
                        &credentials,
                    ),
                    "probe" => stream::encoder::probe(
                        EncoderBuffer::new(&mut buf),
                        sqid,
                        id,
                        pn,
                        nect,
                        ah_len,
                        &mut &ah[..],
                        cd_len,
                        &&cd[..],
                        &mut reader,
                        &k.ctl_seal,
                        &credentials,
                    ),
                    _ => return Err(Bad),
                };
                buf.truncate(len);
                if let Some(space) = match *mode {
                    "retx-s" => Some(stream::PacketSpace::Stream),
                    "retx-r" => Some(stream::PacketSpace::Recovery),
                    _ => None,
                } {
                    stream::decoder::Packet::retransmit(DecoderBufferMut::new(&mut buf), space, rpn, &k.ctl_seal)
                        .map_err(|e| BuildErr::Err(format!("retransmit:{}", derr(e))))?;
                }
                let hdr = len - pl.len() - TAG_LEN;
                Ok(Built { bytes: buf, hdr, pl: pl.len(), suite })
            }
            ["datagram", suite, cid, kid, port, pn, nect, ah, cd, pl] => {
                let suite = suite_tok(suite).ok_or(Bad)?;
                let k = &self.keys[suite];
                let credentials = Credentials { id: cid_tok(cid).ok_or(Bad)?, key_id: vi(kid).ok_or(Bad)? };
                let port: u16 = num(port).ok_or(Bad)?;
                let pn = ovi(pn).ok_or(Bad)?;
                let nect = ovi(nect).ok_or(Bad)?;
                let ah = bytes_tok(ah).ok_or(Bad)?;
                let cd = bytes_tok(cd).ok_or(Bad)?;
                let pl = bytes_tok(pl).ok_or(Bad)?;
                // API precondition of the encoder (FIXME in the code): ack-eliciting needs a packet number;
                // control data is only written for ack-eliciting datagrams
                if (nect.is_some() && pn.is_none()) || (nect.is_none() && !cd.is_empty()) {
                    return Err(Bad);
                }
                let mut buf = vec![0u8; 128 + ah.len() + cd.len() + pl.len() + 64];
                let len = datagram::encoder::encode(
                    EncoderBuffer::new(&mut buf),
                    port,
                    pn,
                    nect,
                    VarInt::try_from(ah.len()).map_err(|_| Bad)?,
                    &mut &ah[..],
                    &&cd[..],
                    VarInt::try_from(pl.len()).map_err(|_| Bad)?,
                    &mut &pl[..],
                    &k.app_seal,
                    &credentials,
                );
                buf.truncate(len);
                let hdr = len - pl.len() - TAG_LEN;
                Ok(Built { bytes: buf, hdr, pl: pl.len(), suite })
            }
            ["control", suite, cid, kid, sid, sqid, pn, ah, cd] => {
                let suite = suite_tok(suite).ok_or(Bad)?;
                let k = &self.keys[suite];
                let credentials = Credentials { id: cid_tok(cid).ok_or(Bad)?, key_id: vi(kid).ok_or(Bad)? };
                let sid = if *sid == "-" {
                    None
                } else {
                    let p: Vec<&str> = sid.split(',').collect();
                    let [q, r, b] = p[..] else { return Err(Bad) };
                    let mut id = stream::Id::default().with_queue_id(vi(q).ok_or(Bad)?).ok_or(Bad)?;
                    id.is_reliable = bit(r).ok_or(Bad)?;
                    id.is_bidirectional = bit(b).ok_or(Bad)?;
                    Some(id)
                };
                let sqid = ovi(sqid).ok_or(Bad)?;
                let pn = vi(pn).ok_or(Bad)?;
                let ah = bytes_tok(ah).ok_or(Bad)?;
                let cd = bytes_tok(cd).ok_or(Bad)?;
                let mut buf = vec![0u8; 128 + ah.len() + cd.len() + 64];
                let len = control::encoder::encode(
                    EncoderBuffer::new(&mut buf),
                    sqid,
                    sid,
                    pn,
                    VarInt::try_from(ah.len()).map_err(|_| Bad)?,
                    &mut &ah[..],
                    VarInt::try_from(cd.len()).map_err(|_| Bad)?,
                    &&cd[..],
                    &k.ctl_seal,
                    &credentials,
                );
                buf.truncate(len);
                Ok(Built { bytes: buf, hdr: len - TAG_LEN, pl: 0, suite })
            }
            ["ups", suite, cid, wv, qid] => {
                let suite = suite_tok(suite).ok_or(Bad)?;
                let credential_id = cid_tok(cid).ok_or(Bad)?;
                let wv: u8 = num(wv).ok_or(Bad)?;
                let queue_id = ovi(qid).ok_or(Bad)?;
                let p = sc::UnknownPathSecret { credential_id, wire_version: WireVersion(wv as u32), queue_id };
                let token = self.signer.sign(&credential_id);
                let mut buf = vec![0u8; sc::MAX_PACKET_SIZE];
                let len = p.encode(EncoderBuffer::new(&mut buf), &token);
                buf.truncate(len);
                Ok(Built { bytes: buf, hdr: len - TAG_LEN, pl: 0, suite })
            }
            [kind @ ("stale" | "replay"), suite, cid, wv, qid, v] => {
                let suite = suite_tok(suite).ok_or(Bad)?;
                let k = &self.keys[suite];
                let credential_id = cid_tok(cid).ok_or(Bad)?;
                let wv: u8 = num(wv).ok_or(Bad)?;
                let queue_id = ovi(qid).ok_or(Bad)?;
                let v = vi(v).ok_or(Bad)?;
                let mut buf = vec![0u8; sc::MAX_PACKET_SIZE];
                let len = if *kind == "stale" {
                    sc::StaleKey { credential_id, wire_version: WireVersion(wv as u32), queue_id, min_key_id: v }
                        .encode(EncoderBuffer::new(&mut buf), &k.sec_seal)
                } else {
                    sc::ReplayDetected { credential_id, wire_version: WireVersion(wv as u32), queue_id, rejected_key_id: v }
                        .encode(EncoderBuffer::new(&mut buf), &k.sec_seal)
                };
                buf.truncate(len);
                Ok(Built { bytes: buf, hdr: len - TAG_LEN, pl: 0, suite })
            }
            _ => Err(Bad),
        }
    }

    fn stream_fields(p: &stream::decoder::Packet) -> String {
        // `retransmission_packet_number_offset` is not public; it is visible in the `Owned` snapshot only
        format!(
            "tag={} cid={} kid={} wv={} sqid={} sid={} pn={} retx={} nect={} off={} fin={} ah={} cd={} pll={}",
            u8::from(p.tag()),
            hex(&p.credentials().id[..]),
            p.credentials().key_id.as_u64(),
            p.wire_version().0,
            ostr(p.source_queue_id()),
            stream_id_str(p.stream_id()),
            p.packet_number().as_u64(),
            p.is_retransmission() as u8,
            p.next_expected_control_packet().as_u64(),
            p.stream_offset().as_u64(),
            ostr(p.final_offset()),
            hex(p.application_header()),
            hex(p.control_data()),
            p.payload().len(),
        )
    }

    fn open_stream(&self, p: &mut stream::decoder::Packet, suite: usize, wrong: bool) -> (&'static str, Vec<u8>) {
        let k = &self.keys[suite];
        let r = if wrong {
            p.decrypt_in_place(&k.app_open_wrong, &k.ctl_open_wrong)
        } else {
            p.decrypt_in_place(&k.app_open, &k.ctl_open)
        };
        match r {
            Ok(()) => ("ok", p.payload().to_vec()),
            Err(e) => (oerr(e), vec![]),
        }
    }

    fn open_datagram(&self, p: &mut datagram::decoder::Packet, suite: usize, wrong: bool) -> (&'static str, Vec<u8>) {
        let k = &self.keys[suite];
        let key = if wrong { &k.app_open_wrong } else { &k.app_open };
        // the call made by `datagram::tunneled::recv::Receiver::recv_into`, in place
        let header = p.header().to_vec();
        let tag = p.auth_tag().to_vec();
        let kp = p.tag().key_phase();
        let nonce = p.crypto_nonce();
        match key.decrypt_in_place(kp, nonce, &header, p.payload_mut(), &tag) {
            Ok(()) => ("ok", p.payload().to_vec()),
            Err(e) => (oerr(e), vec![]),
        }
    }

    fn open_control(&self, p: &control::decoder::Packet, suite: usize, wrong: bool) -> &'static str {
        let k = &self.keys[suite];
        let key = if wrong { &k.ctl_open_wrong } else { &k.ctl_open };
        // the call made by `stream::send::state` on control packets
        match key.verify(p.header(), p.auth_tag()) {
            Ok(()) => "ok",
            Err(e) => oerr(e),
        }
    }

    fn ups_fields(v: &sc::UnknownPathSecret) -> String {
        format!("cid={} wv={} qid={}", hex(&v.credential_id[..]), v.wire_version.0, ostr(v.queue_id))
    }

    /// decode `bytes` with the chosen decoder, render the fields, then authenticate the way the
    /// receivers do (right or wrong key)
    fn decode(&self, which: Which, suite: usize, bytes: &mut [u8], wrong: bool) -> Result<Decoded, &'static str> {
        let total = bytes.len();
        let k = &self.keys[suite];
        match which {
            Which::Only(Kind::Stream) => {
                let (mut p, rest) =
                    stream::decoder::Packet::decode(DecoderBufferMut::new(bytes), (), TAG_LEN).map_err(derr)?;
                let fields = Self::stream_fields(&p);
                let consumed = total - rest.len();
                let (auth, payload) = self.open_stream(&mut p, suite, wrong);
                Ok(Decoded { kind: Kind::Stream, fields, consumed, auth, payload })
            }
            Which::Only(Kind::Datagram) => {
                let (mut p, rest) =
                    datagram::decoder::Packet::decode(DecoderBufferMut::new(bytes), (), TAG_LEN).map_err(derr)?;
                let fields = Self::datagram_fields(&p);
                let consumed = total - rest.len();
                let (auth, payload) = self.open_datagram(&mut p, suite, wrong);
                Ok(Decoded { kind: Kind::Datagram, fields, consumed, auth, payload })
            }
            Which::Only(Kind::Control) => {
                let (p, rest) =
                    control::decoder::Packet::decode(DecoderBufferMut::new(bytes), (), TAG_LEN).map_err(derr)?;
                let fields = Self::control_fields(&p);
                let consumed = total - rest.len();
                let auth = self.open_control(&p, suite, wrong);
                Ok(Decoded { kind: Kind::Control, fields, consumed, auth, payload: vec![] })
            }
            Which::Only(Kind::Ups) => {
                let (p, rest) = sc::unknown_path_secret::Packet::decode(DecoderBufferMut::new(bytes)).map_err(derr)?;
                let consumed = total - rest.len();
                Ok(self.finish_ups(&p, consumed, wrong))
            }
            Which::Only(Kind::Stale) => {
                let (p, rest) = sc::stale_key::Packet::decode(DecoderBufferMut::new(bytes)).map_err(derr)?;
                let consumed = total - rest.len();
                Ok(Self::finish_stale(&p, consumed, if wrong { &k.sec_open_wrong } else { &k.sec_open }))
            }
            Which::Only(Kind::Replay) => {
                let (p, rest) = sc::replay_detected::Packet::decode(DecoderBufferMut::new(bytes)).map_err(derr)?;
                let consumed = total - rest.len();
                Ok(Self::finish_replay(&p, consumed, if wrong { &k.sec_open_wrong } else { &k.sec_open }))
            }
            Which::SecretControl => {
                let (p, rest) = sc::Packet::decode(DecoderBufferMut::new(bytes)).map_err(derr)?;
                let consumed = total - rest.len();
                let key = if wrong { &k.sec_open_wrong } else { &k.sec_open };
                Ok(match p {
                    sc::Packet::UnknownPathSecret(p) => self.finish_ups(&p, consumed, wrong),
                    sc::Packet::StaleKey(p) => Self::finish_stale(&p, consumed, key),
                    sc::Packet::ReplayDetected(p) => Self::finish_replay(&p, consumed, key),
                })
            }
            Which::Any => {
                let (p, rest) = DecoderBufferMut::new(bytes)
                    .decode_parameterized::<packet::Packet>(TAG_LEN)
                    .map_err(derr)?;
                let consumed = total - rest.len();
                let key = if wrong { &k.sec_open_wrong } else { &k.sec_open };
                Ok(match p {
                    packet::Packet::Stream(mut p) => {
                        let fields = Self::stream_fields(&p);
                        let (auth, payload) = self.open_stream(&mut p, suite, wrong);
                        Decoded { kind: Kind::Stream, fields, consumed, auth, payload }
                    }
                    packet::Packet::Datagram(mut p) => {
                        let fields = Self::datagram_fields(&p);
                        let (auth, payload) = self.open_datagram(&mut p, suite, wrong);
                        Decoded { kind: Kind::Datagram, fields, consumed, auth, payload }
                    }
                    packet::Packet::Control(p) => {
                        let fields = Self::control_fields(&p);
                        let auth = self.open_control(&p, suite, wrong);
                        Decoded { kind: Kind::Control, fields, consumed, auth, payload: vec![] }
                    }
                    packet::Packet::UnknownPathSecret(p) => self.finish_ups(&p, consumed, wrong),
                    packet::Packet::StaleKey(p) => Self::finish_stale(&p, consumed, key),
                    packet::Packet::ReplayDetected(p) => Self::finish_replay(&p, consumed, key),
                })
            }
        }
    }

    fn datagram_fields(p: &datagram::decoder::Packet) -> String {
        format!(
            "tag={} cid={} kid={} wv={} port={} pn={} nect={} ah={} cd={} pll={}",
            u8::from(p.tag()),
            hex(&p.credentials().id[..]),
            p.credentials().key_id.as_u64(),
            p.wire_version().0,
            p.source_control_port(),
            p.packet_number().as_u64(),
            ostr(p.next_expected_control_packet()),
            hex(p.application_header()),
            hex(p.control_data()),
            p.payload().len(),
        )
    }

    fn control_fields(p: &control::decoder::Packet) -> String {
        format!(
            "tag={} cid={} kid={} wv={} sid={} sqid={} pn={} ah={} cd={}",
            u8::from(p.tag()),
            hex(&p.credentials().id[..]),
            p.credentials().key_id.as_u64(),
            p.wire_version().0,
            p.stream_id().map(stream_id_str).unwrap_or_else(|| "-".into()),
            ostr(p.source_queue_id()),
            p.packet_number().as_u64(),
            hex(p.application_header()),
            hex(p.control_data()),
        )
    }

    fn finish_ups(&self, p: &sc::unknown_path_secret::Packet, consumed: usize, wrong: bool) -> Decoded {
        // the map compares against the token stored for the entry named by the credential id
        let signer = if wrong { &self.signer_wrong } else { &self.signer };
        let token = signer.sign(p.credential_id());
        // the value is only handed out after authentication; the unauthenticated view is what the
        // packet accessors expose
        let fields = format!("cid={} qid={}", hex(&p.credential_id()[..]), ostr(p.queue_id()));
        let (auth, fields) = match p.authenticate(&token) {
            Some(v) => ("ok", Self::ups_fields(v)),
            None => ("InvalidTag", fields),
        };
        Decoded { kind: Kind::Ups, fields, consumed, auth, payload: vec![] }
    }

    fn finish_stale(p: &sc::stale_key::Packet, consumed: usize, key: &awslc::open::control::Secret) -> Decoded {
        let fields = format!("cid={} qid={}", hex(&p.credential_id()[..]), ostr(p.queue_id()));
        let (auth, fields) = match p.authenticate(key) {
            Some(v) => (
                "ok",
                format!(
                    "cid={} wv={} qid={} v={}",
                    hex(&v.credential_id[..]),
                    v.wire_version.0,
                    ostr(v.queue_id),
                    v.min_key_id.as_u64()
                ),
            ),
            None => ("InvalidTag", fields),
        };
        Decoded { kind: Kind::Stale, fields, consumed, auth, payload: vec![] }
    }

    fn finish_replay(p: &sc::replay_detected::Packet, consumed: usize, key: &awslc::open::control::Secret) -> Decoded {
        let fields = format!("cid={} qid={}", hex(&p.credential_id()[..]), ostr(p.queue_id()));
        let (auth, fields) = match p.authenticate(key) {
            Some(v) => (
                "ok",
                format!(
                    "cid={} wv={} qid={} v={}",
                    hex(&v.credential_id[..]),
                    v.wire_version.0,
                    ostr(v.queue_id),
                    v.rejected_key_id.as_u64()
                ),
            ),
            None => ("InvalidTag", fields),
        };
        Decoded { kind: Kind::Replay, fields, consumed, auth, payload: vec![] }
    }

    fn kind_of_spec(t: &[&str]) -> Option<Kind> {
        Some(match *t.first()? {
            "stream" => Kind::Stream,
            "datagram" => Kind::Datagram,
            "control" => Kind::Control,
            "ups" => Kind::Ups,
            "stale" => Kind::Stale,
            "replay" => Kind::Replay,
            _ => return None,
        })
    }

    /// decode a (mutated) packet the way a receiver does: dispatch on the tag byte, require that the
    /// whole datagram is one packet, authenticate. Returns the layer that rejected it.
    fn receive(&self, suite: usize, bytes: &mut [u8]) -> String {
        let n = bytes.len();
        match self.decode(Which::Any, suite, bytes, false) {
            Err(e) => format!("decode:{e}"),
            Ok(d) => {
                if d.auth != "ok" {
                    format!("auth:{}", d.auth)
                } else if d.consumed != n {
                    // authentic prefix + trailing bytes
                    format!("accepted-prefix:{}:{}", d.kind.name(), d.consumed)
                } else {
                    format!("accepted:{}", d.kind.name())
                }
            }
        }
    }

    fn region(b: &Built, idx: usize) -> &'static str {
        if idx < b.hdr {
            "header"
        } else if idx < b.hdr + b.pl {
            "payload"
        } else {
            "tag"
        }
    }
}

/// `x`: xor with a non-zero mask; `s`: set to a value, or to its complement when the byte already
/// has that value (every mutation changes its byte)
pub fn apply_mutation(bytes: &mut [u8], i: usize, set: bool, x: u8) {
    if set {
        bytes[i] = if bytes[i] == x { x ^ 0xff } else { x };
    } else {
        bytes[i] ^= x;
    }
}

pub fn parse_mutations(s: &str, len: usize) -> Option<Vec<(usize, bool, u8)>> {
    let mut v = Vec::new();
    for m in s.split(',') {
        let (set, body) = if let Some(b) = m.strip_prefix('x') {
            (false, b)
        } else if let Some(b) = m.strip_prefix('s') {
            (true, b)
        } else {
            return None;
        };
        let (i, x) = body.split_once(':')?;
        let i: usize = i.parse().ok()?;
        let x: u8 = x.parse().ok()?;
        if !set && x == 0 {
            return None;
        }
        v.push((i % len, set, x));
    }
    if v.is_empty() || v.len() > 8 {
        return None;
    }
    Some(v)
}

impl Component for DcPackets {
    fn step(&mut self, t: &[&str]) -> String {
        match t {
            ["rt", spec @ ..] => {
                let Some(kind) = Self::kind_of_spec(spec) else { return "bad-op".into() };
                let b = match self.build(spec) {
                    Ok(b) => b,
                    Err(BuildErr::Bad) => return "bad-op".into(),
                    Err(BuildErr::Err(e)) => return format!("err {e}"),
                };
                let n = b.bytes.len();
                let mut right = b.bytes.clone();
                let mut wrong = b.bytes.clone();
                let r = self.decode(Which::Only(kind), b.suite, &mut right, false);
                let w = self.decode(Which::Only(kind), b.suite, &mut wrong, true);
                let hdr = hex(&b.bytes[..b.hdr]);
                match (r, w) {
                    (Ok(r), Ok(w)) => format!(
                        "ok n={n} hdr={hdr} dec={} {} used={} auth={} pl={} wrong={}",
                        r.kind.name(),
                        r.fields,
                        r.consumed,
                        r.auth,
                        hex(&r.payload),
                        w.auth
                    ),
                    (Err(e), _) | (_, Err(e)) => format!("ok n={n} hdr={hdr} dec=err:{e}"),
                }
            }
            ["mut", muts, spec @ ..] => {
                let b = match self.build(spec) {
                    Ok(b) => b,
                    Err(BuildErr::Bad) => return "bad-op".into(),
                    Err(BuildErr::Err(e)) => return format!("err {e}"),
                };
                let n = b.bytes.len();
                let Some(ms) = parse_mutations(muts, n) else { return "bad-op".into() };
                let mut bytes = b.bytes.clone();
                let mut regions: Vec<&str> = Vec::new();
                for (i, set, x) in ms {
                    apply_mutation(&mut bytes, i, set, x);
                    regions.push(Self::region(&b, i));
                }
                if bytes == b.bytes {
                    // only possible when several mutations cancel each other
                    return format!("ok n={n} region={} result=same", regions.join(","));
                }
                let r = self.receive(b.suite, &mut bytes);
                format!("ok n={n} region={} result={r}", regions.join(","))
            }
            ["mutscan", mode, spec @ ..] => {
                let b = match self.build(spec) {
                    Ok(b) => b,
                    Err(BuildErr::Bad) => return "bad-op".into(),
                    Err(BuildErr::Err(e)) => return format!("err {e}"),
                };
                let (set, x) = if let Some(m) = mode.strip_prefix('x') {
                    let Some(x) = num::<u8>(m) else { return "bad-op".into() };
                    if x == 0 {
                        return "bad-op".into();
                    }
                    (false, x)
                } else if let Some(m) = mode.strip_prefix('s') {
                    let Some(x) = num::<u8>(m) else { return "bad-op".into() };
                    (true, x)
                } else {
                    return "bad-op".into();
                };
                let n = b.bytes.len();
                if n > 4096 {
                    return "bad-op".into();
                }
                let (mut dec, mut auth) = (0usize, 0usize);
                let mut accepted: Vec<String> = Vec::new();
                for i in 0..n {
                    let mut bytes = b.bytes.clone();
                    apply_mutation(&mut bytes, i, set, x);
                    let r = self.receive(b.suite, &mut bytes);
                    if r.starts_with("decode:") {
                        dec += 1;
                    } else if r.starts_with("auth:") {
                        auth += 1;
                    } else {
                        accepted.push(format!("{i}:{}", Self::region(&b, i)));
                    }
                }
                format!(
                    "ok n={n} hdr={} pl={} decode={dec} auth={auth} accepted={}",
                    b.hdr,
                    b.pl,
                    if accepted.is_empty() { "-".to_string() } else { accepted.join(",") }
                )
            }
            ["dec", which, suite, h] => {
                let Some(suite) = suite_tok(suite) else { return "bad-op".into() };
                let Some(mut bytes) = unhex(h) else { return "bad-op".into() };
                let which = match *which {
                    "any" => Which::Any,
                    "sc" => Which::SecretControl,
                    k => match Self::kind_of_spec(&[k]) {
                        Some(k) => Which::Only(k),
                        None => return "bad-op".into(),
                    },
                };
                match self.decode(which, suite, &mut bytes, false) {
                    Ok(d) => format!("ok dec={} {} used={} auth={}", d.kind.name(), d.fields, d.consumed, d.auth),
                    Err(e) => format!("err {e}"),
                }
            }
            ["fuzz", h] => {
                let Some(bytes) = unhex(h) else { return "bad-op".into() };
                let mut out = String::from("ok");
                for (name, which) in [
                    ("stream", Which::Only(Kind::Stream)),
                    ("datagram", Which::Only(Kind::Datagram)),
                    ("control", Which::Only(Kind::Control)),
                    ("ups", Which::Only(Kind::Ups)),
                    ("stale", Which::Only(Kind::Stale)),
                    ("replay", Which::Only(Kind::Replay)),
                    ("sc", Which::SecretControl),
                    ("any", Which::Any),
                ] {
                    let mut b = bytes.clone();
                    let r = match self.decode(which, 0, &mut b, false) {
                        Ok(d) => format!("{}:{}:{}", d.kind.name(), d.consumed, d.auth),
                        Err(e) => e.to_string(),
                    };
                    out.push_str(&format!(" {name}={r}"));
                }
                out
            }
            ["mac", which, suite, h, taglen] => {
                let Some(suite) = suite_tok(suite) else { return "bad-op".into() };
                let Some(header) = unhex(h) else { return "bad-op".into() };
                let Some(taglen) = num::<usize>(taglen) else { return "bad-op".into() };
                if taglen > 64 {
                    return "bad-op".into();
                }
                let k = &self.keys[suite];
                let mut tag = [0u8; TAG_LEN];
                let mut cut = vec![0u8; taglen];
                let (full, short) = match *which {
                    "stream" => {
                        k.ctl_seal.sign(&header, &mut tag);
                        let n = taglen.min(TAG_LEN);
                        cut[..n].copy_from_slice(&tag[..n]);
                        (k.ctl_open.verify(&header, &tag), k.ctl_open.verify(&header, &cut))
                    }
                    "secret" => {
                        k.sec_seal.sign(&header, &mut tag);
                        let n = taglen.min(TAG_LEN);
                        cut[..n].copy_from_slice(&tag[..n]);
                        (k.sec_open.verify(&header, &tag), k.sec_open.verify(&header, &cut))
                    }
                    _ => return "bad-op".into(),
                };
                let s = |r: open::Result| match r {
                    Ok(()) => "ok",
                    Err(e) => oerr(e),
                };
                format!("ok tag={} full={} cut={}", k.ctl_seal.tag_len().min(k.sec_seal.tag_len()), s(full), s(short))
            }
            _ => "bad-op".into(),
        }
    }
}

#[allow(dead_code)]
fn _assert_traits() {
    fn a<T: seal::Application>() {}
    a::<awslc::seal::Application>();
}
