//! `key_ids`: the REAL `s2n_quic_dc::path::secret::sender::State` of a path-secret entry.
//!
//! `path::secret::sender` is a private module and `update_for_stale_key` is `pub(super)`, so the
//! state is reached the way production code reaches it:
//!   * the entry is created by the real dc handshake callbacks (`dc::Endpoint::new_path` on a
//!     `Map`, `on_path_secrets_ready` with a TLS exporter stub, `on_peer_stateless_reset_tokens`,
//!     `on_dc_handshake_complete`), which runs `sender::State::new`;
//!   * `next`  = `entry.sender().next_key_id()` (what `uni_sealer`/`bidi_local` call);
//!   * `stale <v>` = a StaleKey control packet sealed with the peer's control key and fed to
//!     `Map::handle_stale_key_packet`, which authenticates it and calls `update_for_stale_key`;
//!   * `current` = `current_id` read from the `Debug` rendering of the state (no public getter).
//!   next        -> ok <id> | err exhausted     (the real code panics; caught here)
//!   stale <v>   -> ok | err rejected
//!   current     -> ok <counter>
//!   stress <threads> <n> <seed> -> `threads` real threads take n ids each from one sender while
//!                  one more thread alternates StaleKey{v} delivery and taking an id (must be >= v):
//!                  ok issued=<..> dups=<..> increasing=<0|1> stale_respected=<0|1>
use crate::{util::*, Component};
use s2n_codec::{DecoderBufferMut, EncoderBuffer};
use s2n_quic_core::{
    crypto::tls::{self, CipherSuite, TlsExportError, TlsSession},
    dc::{self, Endpoint as _, Path as _},
    event::IntoEvent,
    inet::SocketAddress,
    stateless_reset,
    varint::VarInt,
};
use s2n_quic_dc::{
    packet::{secret_control as control, WireVersion},
    path::secret::{map::Entry, schedule, stateless_reset::Signer, Map},
};
use std::{
    net::SocketAddr,
    panic::{catch_unwind, AssertUnwindSafe},
    sync::{
        atomic::{AtomicU64, Ordering},
        Arc, Barrier, OnceLock,
    },
};

pub const NAMES: &[&str] = &["key_ids"];

pub fn make(name: &str) -> Option<Box<dyn Component>> {
    match name {
        "key_ids" => Some(Box::new(KeyIds::new())),
        _ => None,
    }
}

struct Exporter([u8; 32]);

impl TlsSession for Exporter {
    fn tls_exporter(&self, _label: &[u8], _context: &[u8], output: &mut [u8]) -> Result<(), TlsExportError> {
        output.copy_from_slice(&self.0[..output.len()]);
        Ok(())
    }

    fn cipher_suite(&self) -> CipherSuite {
        CipherSuite::TLS_AES_128_GCM_SHA256
    }

    fn peer_cert_chain_der(&self) -> Result<Vec<Vec<u8>>, tls::ChainError> {
        Err(tls::ChainError::failure())
    }

    fn client_cert_chain_der(&self) -> Result<Option<Vec<u8>>, tls::ChainError> {
        Err(tls::ChainError::failure())
    }
}

fn map() -> &'static Map {
    static MAP: OnceLock<Map> = OnceLock::new();
    MAP.get_or_init(|| {
        Map::new(
            Signer::new(b"vh-dc"),
            4096,
            false,
            s2n_quic_core::time::StdClock::default(),
            s2n_quic_dc::event::disabled::Subscriber::default(),
        )
    })
}

static SERIAL: AtomicU64 = AtomicU64::new(1);

pub struct KeyIds {
    entry: Arc<Entry>,
    peer: SocketAddr,
    /// the peer's view of the same path secret: seals control packets our entry accepts
    peer_secret: schedule::Secret,
}

impl KeyIds {
    fn new() -> Self {
        let serial = SERIAL.fetch_add(1, Ordering::Relaxed);
        let mut material = [0x5au8; 32];
        material[..8].copy_from_slice(&serial.to_be_bytes());
        let peer: SocketAddr = SocketAddr::from(([127, 0, (serial >> 8) as u8, serial as u8], 4433));
        let remote: SocketAddress = peer.into();
        let info = dc::ConnectionInfo::new(
            &remote,
            dc::SUPPORTED_VERSIONS[0],
            dc::testing::TEST_APPLICATION_PARAMS,
            s2n_quic_core::endpoint::Type::Client.into_event(),
        );
        let mut m = map().clone();
        let mut path = m.new_path(&info).expect("path");
        path.on_path_secrets_ready(&Exporter(material)).expect("secrets");
        let tok = stateless_reset::Token::from([9u8; 16]);
        path.on_peer_stateless_reset_tokens([tok].iter());
        path.on_dc_handshake_complete();
        let entry = path.entry().expect("entry");
        let peer_secret = schedule::Secret::new(
            schedule::Ciphersuite::AES_GCM_128_SHA256,
            dc::SUPPORTED_VERSIONS[0],
            s2n_quic_core::endpoint::Type::Server,
            &material,
        );
        assert_eq!(peer_secret.id(), entry.id());
        KeyIds { entry, peer, peer_secret }
    }

    fn current(&self) -> Option<u64> {
        current_of(&self.entry)
    }
}

fn current_of(entry: &Entry) -> Option<u64> {
    let d = format!("{:?}", entry.sender());
    let m = d.split("current_id: ").nth(1)?;
    let m: String = m.chars().take_while(|c| c.is_ascii_digit()).collect();
    m.parse().ok()
}

/// deliver an authenticated StaleKey{min_key_id = v} to the map; true when it was accepted
fn deliver_stale(entry: &Entry, peer_secret: &schedule::Secret, peer: &SocketAddr, v: VarInt) -> bool {
    let pkt = control::StaleKey {
        credential_id: *entry.id(),
        wire_version: WireVersion::ZERO,
        queue_id: None,
        min_key_id: v,
    };
    let mut buf = [0u8; control::MAX_PACKET_SIZE];
    let len = pkt.encode(EncoderBuffer::new(&mut buf), &peer_secret.control_sealer());
    let buf = &mut buf[..len];
    let Ok((packet, _)) = control::Packet::decode(DecoderBufferMut::new(buf)) else { return false };
    match packet {
        control::Packet::StaleKey(p) => map().handle_stale_key_packet(&p, peer).is_some(),
        _ => false,
    }
}

fn next(entry: &Entry) -> Option<u64> {
    catch_unwind(AssertUnwindSafe(|| entry.sender().next_key_id().as_u64())).ok()
}

impl Component for KeyIds {
    fn step(&mut self, t: &[&str]) -> String {
        match t {
            ["next"] => match next(&self.entry) {
                Some(id) => format!("ok {id}"),
                None => "err exhausted".into(),
            },
            ["stale", v] => {
                let Some(x) = num::<u128>(v) else { return "bad-op".into() };
                let Ok(x) = u64::try_from(x) else { return "bad-op".into() };
                let Ok(v) = VarInt::new(x) else { return "bad-op".into() };
                if deliver_stale(&self.entry, &self.peer_secret, &self.peer, v) {
                    "ok".into()
                } else {
                    "err rejected".into()
                }
            }
            ["current"] => match self.current() {
                Some(c) => format!("ok {c}"),
                None => "err unreadable".into(),
            },
            ["stress", th, n, seed] => {
                let (Some(th), Some(n), Some(seed)) = (num::<u64>(th), num::<u64>(n), num::<u64>(seed)) else {
                    return "bad-op".into();
                };
                if !(1..=64).contains(&th) || !(1..=100000).contains(&n) || seed >= 1 << 32 {
                    return "bad-op".into();
                }
                // a fresh entry: the component's own counter is not disturbed
                let fresh = KeyIds::new();
                let entry = fresh.entry.clone();
                let barrier = Arc::new(Barrier::new(th as usize + 1));
                let mut hs = Vec::new();
                for _ in 0..th {
                    let entry = entry.clone();
                    let barrier = barrier.clone();
                    hs.push(std::thread::spawn(move || {
                        let mut got = Vec::with_capacity(n as usize);
                        barrier.wait();
                        for _ in 0..n {
                            if let Some(id) = next(&entry) {
                                got.push(id);
                            }
                        }
                        got
                    }));
                }
                // the StaleKey thread: after each delivery, the ids it takes itself must be >= v
                let stale = {
                    let entry = entry.clone();
                    let barrier = barrier.clone();
                    let peer_secret = fresh.peer_secret;
                    let peer = fresh.peer;
                    std::thread::spawn(move || {
                        let mut respected = true;
                        let mut got = Vec::with_capacity(n as usize);
                        barrier.wait();
                        for r in 0..n {
                            let v = (seed + r * 7) % 5000;
                            if !deliver_stale(&entry, &peer_secret, &peer, VarInt::new(v).unwrap()) {
                                respected = false;
                            }
                            match next(&entry) {
                                Some(id) => {
                                    if id < v {
                                        respected = false;
                                    }
                                    got.push(id);
                                }
                                None => respected = false,
                            }
                        }
                        (respected, got)
                    })
                };
                let mut all = Vec::new();
                let mut increasing = true;
                for h in hs {
                    let got = h.join().unwrap();
                    if got.windows(2).any(|w| w[0] >= w[1]) {
                        increasing = false;
                    }
                    all.extend(got);
                }
                let (respected, got) = stale.join().unwrap();
                if got.windows(2).any(|w| w[0] >= w[1]) {
                    increasing = false;
                }
                all.extend(got);
                all.sort_unstable();
                let issued = all.len();
                all.dedup();
                let dups = issued - all.len();
                format!(
                    "ok issued={issued} dups={dups} increasing={} stale_respected={}",
                    increasing as u8, respected as u8
                )
            }
            _ => "bad-op".into(),
        }
    }
}
