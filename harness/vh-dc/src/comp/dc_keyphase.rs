//! `dc_keyphase`: the REAL key-phase wrappers of s2n-quic-dc, `path::secret::{seal,open}::Application`
//! (two opener slots indexed by the packet's key-phase bit, `key_phase`, `needs_update`, `update()`, the
//! `Dedup` check) and the `Once` variants, obtained the way production code obtains them:
//!
//!   * two real `path::secret::Map`s (a client and a server) are populated through the production dc
//!     handshake callbacks (`dc::Endpoint::new_path`, `on_path_secrets_ready` with a TLS exporter stub,
//!     `on_peer_stateless_reset_tokens`, `on_dc_handshake_complete`) from the same exported secret;
//!   * `pair`      = client `Map::get_tracked(peer).pair(features)` (= `Entry::bidi_local`, takes the next key id,
//!                   opener without dedup) + server `Map::pair_for_credentials(credentials, ..)` (= `bidi_remote`,
//!                   opener with the map-backed `Dedup`);
//!   * `dup <s>`   = the server derives the keys for the SAME credentials once more (replayed first packet);
//!   * `onew`/`oopener` = `Peer::seal_once()` / `Map::open_once()`.
//!   * in `stream` mode the keys live inside the production `stream::crypto::Crypto` and every seal/open goes
//!     through `Crypto::seal_with` / `Crypto::open_with`, i.e. `update()` is called exactly where the stream code
//!     calls it (after the closure, iff `needs_update()`; sealer update closure as in `send/application.rs` for a
//!     reliable transport). In `raw` mode the wrappers are driven directly and `update`/`poll` are explicit ops.
//!
//! ops (one output line each; `<e>` = endpoint `c`lient | `s`erver; a packet sealed by `c` is meant for `s`):
//!   init <128|256> <raw|stream>
//!   pair                                   -> ok s=<stream> key=<key id>
//!   dup <s>                                -> ok s=<stream> key=<key id>        (server keys only)
//!   skip <n>                               -> ok                                 (client sender takes n key ids)
//!   seal <s> <e> <pn> <hdr> <payload>      -> ok pkt=<id> phase=<0|1> upd=<0|1> | <sealer state>
//!   burn <s> <e> <n>                       -> ok phase=<0|1> upd=<0|1> | <sealer state>     (n records in ONE seal closure)
//!   open <s> <e> <copy|inplace> <pkt> <k|f> <muts|->
//!                                          -> ok <payload> upd=<0|1> | <opener state>  |  err <kind> upd=<0|1> | <opener state>
//!        k/f: present the packet's own / the flipped key-phase bit; muts: `h<i>:<xor>` header byte, `p<i>:<xor>`
//!        ciphertext byte, `t<i>:<xor>` tag byte, `n:<xor>` packet number (xor != 0, index in range)
//!   update <s> <e> <seal|open>             -> ok | <state>                       (raw mode: unconditional `update()`)
//!   poll <s> <e> <seal|open>               -> ok upd=<0|1> | <state>             (`if needs_update() { update() }`)
//!   state <s> <e>                          -> ok seal: <sealer state> | open: <opener state>
//!   onew                                   -> ok o=<once sealer> key=<key id>
//!   oseal <o> <pn> <hdr> <payload>         -> ok pkt=<id> phase=0 | err sealed-twice
//!   oopener <o>                            -> ok j=<once opener>
//!   oopen <j> <copy|inplace> <pkt> <k|f> <muts|->  -> ok <payload> | <once state>  |  err <kind> | <once state>
//! sealer state: ph=<key phase> rec=<encrypted_records> nu=<needs_update()>
//! opener state: ph=<expected key phase> nu=<needs_update> dd=<uninit|ok|definitely|potentially>   (`{:?}` of the real struct)
//! once state:   opened=<0|1> dd=<..>
use crate::{util::*, Component};
use s2n_quic_core::{
    crypto::tls::{self, CipherSuite, TlsExportError, TlsSession},
    dc::{self, Endpoint as _, Path as _},
    event::IntoEvent,
    inet::SocketAddress,
    packet::KeyPhase,
    stateless_reset,
    time::NoopClock,
    varint::VarInt,
};
use s2n_quic_dc::{
    credentials::Credentials,
    crypto::{
        open::{self as copen, Application as _},
        seal::Application as _,
    },
    event::{self, api},
    path::secret::{map::Entry, open, seal, stateless_reset::Signer, Map},
    stream::{crypto::Crypto, shared, TransportFeatures},
};
use std::{
    net::SocketAddr,
    panic::{catch_unwind, AssertUnwindSafe},
    sync::{
        atomic::{AtomicU64, Ordering},
        Arc, Mutex,
    },
};

pub const NAMES: &[&str] = &["dc_keyphase"];

pub fn make(name: &str) -> Option<Box<dyn Component>> {
    match name {
        "dc_keyphase" => Some(Box::new(DcKeyPhase::new(false, false))),
        _ => None,
    }
}

const TAG_LEN: usize = 16;

struct Exporter([u8; 32], bool);

impl TlsSession for Exporter {
    fn tls_exporter(&self, _label: &[u8], _context: &[u8], output: &mut [u8]) -> Result<(), TlsExportError> {
        output.copy_from_slice(&self.0[..output.len()]);
        Ok(())
    }

    fn cipher_suite(&self) -> CipherSuite {
        if self.1 {
            CipherSuite::TLS_AES_256_GCM_SHA384
        } else {
            CipherSuite::TLS_AES_128_GCM_SHA256
        }
    }

    fn peer_cert_chain_der(&self) -> Result<Vec<Vec<u8>>, tls::ChainError> {
        Err(tls::ChainError::failure())
    }

    fn client_cert_chain_der(&self) -> Result<Option<Vec<u8>>, tls::ChainError> {
        Err(tls::ChainError::failure())
    }
}

/// records the key-update events the wrappers publish from `update()`
#[derive(Clone, Default)]
struct Recorder(Arc<Mutex<Vec<String>>>);

impl event::Subscriber for Recorder {
    type ConnectionContext = ();

    fn create_connection_context(&self, _meta: &api::ConnectionMeta, _info: &api::ConnectionInfo) {}

    fn on_stream_write_key_updated(&self, _c: &(), _m: &api::ConnectionMeta, e: &api::StreamWriteKeyUpdated) {
        self.0.lock().unwrap().push(format!("w{}", e.key_phase));
    }

    fn on_stream_read_key_updated(&self, _c: &(), _m: &api::ConnectionMeta, e: &api::StreamReadKeyUpdated) {
        self.0.lock().unwrap().push(format!("r{}", e.key_phase));
    }
}

enum Keys {
    Raw { sealer: seal::Application, opener: open::Application },
    Stream(Crypto),
}

struct Strm {
    credentials: Credentials,
    client: Option<Keys>,
    server: Keys,
}

struct Pkt {
    phase: KeyPhase,
    pn: u64,
    hdr: Vec<u8>,
    /// ciphertext || tag
    body: Vec<u8>,
}

pub struct DcKeyPhase {
    stream_mode: bool,
    client: Map,
    server: Map,
    client_entry: Arc<Entry>,
    /// the server's address as the client's map knows it
    server_addr: SocketAddr,
    streams: Vec<Strm>,
    pkts: Vec<Pkt>,
    once_sealers: Vec<(seal::Once, Credentials)>,
    once_openers: Vec<open::Once>,
    sub: shared::Subscriber<Recorder>,
    burn_pn: u64,
}

static SERIAL: AtomicU64 = AtomicU64::new(1);

fn handshake(map: &Map, peer: SocketAddr, ty: s2n_quic_core::endpoint::Type, material: [u8; 32], aes256: bool) -> Arc<Entry> {
    let remote: SocketAddress = peer.into();
    let info = dc::ConnectionInfo::new(&remote, dc::SUPPORTED_VERSIONS[0], dc::testing::TEST_APPLICATION_PARAMS, ty.into_event());
    let mut m = map.clone();
    let mut path = m.new_path(&info).expect("path");
    path.on_path_secrets_ready(&Exporter(material, aes256)).expect("secrets");
    let tok = stateless_reset::Token::from([7u8; 16]);
    path.on_peer_stateless_reset_tokens([tok].iter());
    path.on_dc_handshake_complete();
    path.entry().expect("entry")
}

fn phase_bit(p: KeyPhase) -> u8 {
    match p {
        KeyPhase::Zero => 0,
        KeyPhase::One => 1,
    }
}

/// the word following `key` in a `{:?}` rendering
fn field(dbg: &str, key: &str) -> String {
    dbg.split(key)
        .nth(1)
        .map(|m| m.chars().take_while(|c| c.is_ascii_alphanumeric()).collect())
        .unwrap_or_else(|| "?".into())
}

fn dedup_of(dbg: &str) -> &'static str {
    let Some(rest) = dbg.split("dedup: Dedup { cell: OnceCell(").nth(1) else { return "?" };
    if rest.starts_with("Uninit") || rest.starts_with("<uninit>") {
        "uninit"
    } else if rest.starts_with("Ok(") {
        "ok"
    } else if rest.starts_with("Err(ReplayDefinitelyDetected") {
        "definitely"
    } else if rest.starts_with("Err(ReplayPotentiallyDetected") {
        "potentially"
    } else {
        "?"
    }
}

fn b01(word: &str) -> &'static str {
    match word {
        "true" | "One" => "1",
        "false" | "Zero" => "0",
        _ => "?",
    }
}

fn sealer_state(dbg: &str, needs_update: bool) -> String {
    format!("ph={} rec={} nu={}", b01(&field(dbg, "key_phase: ")), field(dbg, "encrypted_records: "), needs_update as u8)
}

fn opener_state(dbg: &str) -> String {
    format!("ph={} nu={} dd={}", b01(&field(dbg, "key_phase: ")), b01(&field(dbg, "needs_update: ")), dedup_of(dbg))
}

fn err_kind(e: copen::Error) -> &'static str {
    match e {
        copen::Error::ReplayPotentiallyDetected { .. } => "replay-potentially",
        copen::Error::ReplayDefinitelyDetected => "replay-definitely",
        copen::Error::InvalidTag => "invalid-tag",
        copen::Error::SingleUseKey => "single-use-key",
        copen::Error::UnsupportedOperation => "unsupported",
        copen::Error::MacOnly => "mac-only",
        copen::Error::RotationNotSupported => "rotation-not-supported",
    }
}

/// (phase, pn, header, ciphertext, tag) handed to an opener
struct Wire {
    phase: KeyPhase,
    pn: u64,
    hdr: Vec<u8>,
    ct: Vec<u8>,
    tag: Vec<u8>,
}

fn decrypt_with<O: copen::Application + ?Sized>(o: &O, in_place: bool, w: &Wire) -> Result<Vec<u8>, copen::Error> {
    if in_place {
        let mut buf = w.ct.clone();
        o.decrypt_in_place(w.phase, w.pn, &w.hdr, &mut buf, &w.tag)?;
        Ok(buf)
    } else {
        let mut out = vec![0u8; w.ct.len()];
        o.decrypt(w.phase, w.pn, &w.hdr, &w.ct, &w.tag, (&mut out[..]).into())?;
        Ok(out)
    }
}

impl DcKeyPhase {
    fn new(aes256: bool, stream_mode: bool) -> Self {
        let serial = SERIAL.fetch_add(1, Ordering::Relaxed);
        let mut material = [0x4bu8; 32];
        material[..8].copy_from_slice(&serial.to_be_bytes());
        material[31] = 0x19;
        let mk = |name: &[u8]| {
            Map::new(
                Signer::new(name),
                64,
                false,
                s2n_quic_core::time::StdClock::default(),
                s2n_quic_dc::event::disabled::Subscriber::default(),
            )
        };
        let client = mk(b"vh-dckey-client");
        let server = mk(b"vh-dckey-server");
        let server_addr = SocketAddr::from(([10, 1, 0, 1], 4433));
        let client_addr = SocketAddr::from(([10, 1, 0, 2], 4433));
        let client_entry = handshake(&client, server_addr, s2n_quic_core::endpoint::Type::Client, material, aes256);
        let server_entry = handshake(&server, client_addr, s2n_quic_core::endpoint::Type::Server, material, aes256);
        assert_eq!(client_entry.id(), server_entry.id());
        DcKeyPhase {
            stream_mode,
            client,
            server,
            client_entry,
            server_addr,
            streams: Vec::new(),
            pkts: Vec::new(),
            once_sealers: Vec::new(),
            once_openers: Vec::new(),
            sub: shared::Subscriber { subscriber: Recorder::default(), context: () },
            burn_pn: 1 << 40,
        }
    }

    fn wrap(&self, sealer: seal::Application, opener: open::Application, map: &Map) -> Keys {
        if self.stream_mode {
            Keys::Stream(Crypto::new(sealer, opener, None, map))
        } else {
            Keys::Raw { sealer, opener }
        }
    }

    fn keys<'a>(streams: &'a mut [Strm], s: &str, e: &str) -> Option<&'a mut Keys> {
        let st = streams.get_mut(num::<usize>(s)?)?;
        match e {
            "c" => st.client.as_mut(),
            "s" => Some(&mut st.server),
            _ => None,
        }
    }

    fn take_events(sub: &shared::Subscriber<Recorder>) -> Vec<String> {
        std::mem::take(&mut *sub.subscriber.0.lock().unwrap())
    }

    fn sealer_state_of(k: &Keys) -> String {
        match k {
            Keys::Raw { sealer, .. } => sealer_state(&format!("{sealer:?}"), sealer.needs_update()),
            Keys::Stream(c) => {
                let d = format!("{c:?}");
                let d = d.split(", opener: ").next().unwrap_or("").to_string();
                let nu = c.seal_with(|s| s.needs_update(), |_| {});
                sealer_state(&d, nu)
            }
        }
    }

    fn opener_state_of(k: &Keys) -> String {
        match k {
            Keys::Raw { opener, .. } => opener_state(&format!("{opener:?}")),
            Keys::Stream(c) => {
                let d = format!("{c:?}");
                opener_state(d.split(", opener: ").nth(1).unwrap_or(""))
            }
        }
    }

    /// the packet as handed to the opener: own/flipped phase bit + byte mutations
    fn wire(&self, pkt: &str, flip: &str, muts: &str) -> Option<Wire> {
        let p = self.pkts.get(num::<usize>(pkt)?)?;
        let phase = match flip {
            "k" => p.phase,
            "f" => p.phase.next_phase(),
            _ => return None,
        };
        let n = p.body.len() - TAG_LEN;
        let mut w = Wire { phase, pn: p.pn, hdr: p.hdr.clone(), ct: p.body[..n].to_vec(), tag: p.body[n..].to_vec() };
        if muts != "-" {
            let mut count = 0;
            for m in muts.split(',') {
                count += 1;
                if let Some(x) = m.strip_prefix("n:") {
                    let x: u64 = x.parse().ok()?;
                    if x == 0 {
                        return None;
                    }
                    w.pn ^= x;
                    continue;
                }
                let (target, body) = m.split_at(1);
                let (i, x) = body.split_once(':')?;
                let i: usize = i.parse().ok()?;
                let x: u8 = x.parse().ok()?;
                if x == 0 {
                    return None;
                }
                let buf = match target {
                    "h" => &mut w.hdr,
                    "p" => &mut w.ct,
                    "t" => &mut w.tag,
                    _ => return None,
                };
                *buf.get_mut(i)? ^= x;
            }
            if count > 8 {
                return None;
            }
        }
        Some(w)
    }

    fn do_seal<S: s2n_quic_dc::crypto::seal::Application + ?Sized>(sealer: &S, pn: u64, hdr: &[u8], payload: &[u8]) -> (KeyPhase, Vec<u8>) {
        let phase = sealer.key_phase();
        let mut body = payload.to_vec();
        body.resize(payload.len() + TAG_LEN, 0);
        sealer.encrypt(pn, hdr, None, &mut body);
        (phase, body)
    }
}

impl Component for DcKeyPhase {
    fn step(&mut self, t: &[&str]) -> String {
        match t {
            ["init", suite, mode] => {
                let aes256 = match *suite {
                    "128" => false,
                    "256" => true,
                    _ => return "bad-op".into(),
                };
                let stream_mode = match *mode {
                    "raw" => false,
                    "stream" => true,
                    _ => return "bad-op".into(),
                };
                *self = DcKeyPhase::new(aes256, stream_mode);
                "ok".into()
            }
            ["pair"] => {
                if self.streams.len() >= 64 {
                    return "bad-op".into();
                }
                let features = TransportFeatures::TCP;
                let Some(peer) = self.client.get_tracked(self.server_addr) else { return "err no-peer".into() };
                let (local, _params) = peer.pair(&features);
                let credentials = local.credentials;
                let mut out = Vec::new();
                let Some((remote, _params, _data)) = self.server.pair_for_credentials(&credentials, None, &features, &mut out) else {
                    return "err pre-auth".into();
                };
                let c = self.wrap(local.application.sealer, local.application.opener, &self.client.clone());
                let s = self.wrap(remote.application.sealer, remote.application.opener, &self.server.clone());
                self.streams.push(Strm { credentials, client: Some(c), server: s });
                format!("ok s={} key={}", self.streams.len() - 1, credentials.key_id.as_u64())
            }
            ["dup", s] => {
                if self.streams.len() >= 64 {
                    return "bad-op".into();
                }
                let Some(st) = num::<usize>(s).and_then(|s| self.streams.get(s)) else { return "bad-op".into() };
                let credentials = st.credentials;
                let mut out = Vec::new();
                let Some((remote, _params, _data)) =
                    self.server.pair_for_credentials(&credentials, None, &TransportFeatures::TCP, &mut out)
                else {
                    return "err pre-auth".into();
                };
                let s = self.wrap(remote.application.sealer, remote.application.opener, &self.server.clone());
                self.streams.push(Strm { credentials, client: None, server: s });
                format!("ok s={} key={}", self.streams.len() - 1, credentials.key_id.as_u64())
            }
            ["skip", n] => {
                let Some(n) = num::<usize>(n) else { return "bad-op".into() };
                if n > 4000 {
                    return "bad-op".into();
                }
                for _ in 0..n {
                    self.client_entry.sender().next_key_id();
                }
                "ok".into()
            }
            ["seal", s, e, pn, hdr, payload] => {
                let (Some(pn), Some(hdr), Some(payload)) = (num::<u64>(pn), unhex(hdr), unhex(payload)) else { return "bad-op".into() };
                if self.pkts.len() >= 100_000 {
                    return "bad-op".into();
                }
                let clock = NoopClock;
                let sub = &self.sub;
                let Some(k) = Self::keys(&mut self.streams, s, e) else { return "bad-op".into() };
                let (phase, body) = match k {
                    Keys::Raw { sealer, .. } => Self::do_seal(sealer, pn, &hdr, &payload),
                    Keys::Stream(c) => c.seal_with(|sealer| Self::do_seal(sealer, pn, &hdr, &payload), |sealer| sealer.update(&clock, sub)),
                };
                let state = Self::sealer_state_of(k);
                let upd = !Self::take_events(sub).is_empty();
                self.pkts.push(Pkt { phase, pn, hdr, body });
                format!("ok pkt={} phase={} upd={} | {}", self.pkts.len() - 1, phase_bit(phase), upd as u8, state)
            }
            ["burn", s, e, n] => {
                let Some(n) = num::<u64>(n) else { return "bad-op".into() };
                if n > 20_000 {
                    return "bad-op".into();
                }
                let clock = NoopClock;
                let base = self.burn_pn;
                self.burn_pn += n;
                let sub = &self.sub;
                let Some(k) = Self::keys(&mut self.streams, s, e) else { return "bad-op".into() };
                let burn = |sealer: &seal::Application| {
                    let phase = sealer.key_phase();
                    for i in 0..n {
                        Self::do_seal(sealer, base + i, &[0x42], &[1, 2, 3]);
                    }
                    phase
                };
                let phase = match k {
                    Keys::Raw { sealer, .. } => burn(sealer),
                    Keys::Stream(c) => c.seal_with(|sealer| burn(sealer), |sealer| sealer.update(&clock, sub)),
                };
                let state = Self::sealer_state_of(k);
                let upd = !Self::take_events(sub).is_empty();
                format!("ok phase={} upd={} | {}", phase_bit(phase), upd as u8, state)
            }
            ["open", s, e, how, pkt, flip, muts] => {
                let in_place = match *how {
                    "copy" => false,
                    "inplace" => true,
                    _ => return "bad-op".into(),
                };
                let Some(w) = self.wire(pkt, flip, muts) else { return "bad-op".into() };
                let clock = NoopClock;
                let sub = &self.sub;
                let Some(k) = Self::keys(&mut self.streams, s, e) else { return "bad-op".into() };
                let r = match k {
                    Keys::Raw { opener, .. } => decrypt_with(&*opener, in_place, &w),
                    Keys::Stream(c) => c.open_with(|opener| decrypt_with(opener, in_place, &w), &clock, sub),
                };
                let state = Self::opener_state_of(k);
                let upd = !Self::take_events(sub).is_empty();
                match r {
                    Ok(p) => format!("ok {} upd={} | {}", hex(&p), upd as u8, state),
                    Err(err) => format!("err {} upd={} | {}", err_kind(err), upd as u8, state),
                }
            }
            ["update", s, e, which] | ["poll", s, e, which] => {
                let poll = t[0] == "poll";
                let seal_side = match *which {
                    "seal" => true,
                    "open" => false,
                    _ => return "bad-op".into(),
                };
                let clock = NoopClock;
                let sub = &self.sub;
                let Some(k) = Self::keys(&mut self.streams, s, e) else { return "bad-op".into() };
                match k {
                    Keys::Raw { sealer, opener } => {
                        if seal_side {
                            if !poll || sealer.needs_update() {
                                sealer.update(&clock, sub);
                            }
                        } else if !poll || opener.needs_update() {
                            opener.update(&clock, sub);
                        }
                    }
                    Keys::Stream(c) => {
                        if !poll {
                            // the stream code offers no unconditional update
                            return "bad-op".into();
                        }
                        if seal_side {
                            c.seal_with(|_| (), |sealer| sealer.update(&clock, sub));
                        } else {
                            c.open_with(|_| (), &clock, sub);
                        }
                    }
                }
                let state = if seal_side { Self::sealer_state_of(k) } else { Self::opener_state_of(k) };
                let upd = !Self::take_events(sub).is_empty();
                if poll {
                    format!("ok upd={} | {}", upd as u8, state)
                } else {
                    format!("ok | {state}")
                }
            }
            ["state", s, e] => {
                let Some(k) = Self::keys(&mut self.streams, s, e) else { return "bad-op".into() };
                format!("ok seal: {} | open: {}", Self::sealer_state_of(k), Self::opener_state_of(k))
            }
            ["onew"] => {
                if self.once_sealers.len() >= 256 {
                    return "bad-op".into();
                }
                let Some(peer) = self.client.get_tracked(self.server_addr) else { return "err no-peer".into() };
                let (sealer, credentials, _params) = peer.seal_once();
                self.once_sealers.push((sealer, credentials));
                format!("ok o={} key={}", self.once_sealers.len() - 1, credentials.key_id.as_u64())
            }
            ["oseal", o, pn, hdr, payload] => {
                let (Some(pn), Some(hdr), Some(payload)) = (num::<u64>(pn), unhex(hdr), unhex(payload)) else { return "bad-op".into() };
                let Some((sealer, _)) = num::<usize>(o).and_then(|o| self.once_sealers.get(o)) else { return "bad-op".into() };
                // `seal::Once::encrypt` asserts single use
                match catch_unwind(AssertUnwindSafe(|| Self::do_seal(sealer, pn, &hdr, &payload))) {
                    Ok((phase, body)) => {
                        self.pkts.push(Pkt { phase, pn, hdr, body });
                        format!("ok pkt={} phase={}", self.pkts.len() - 1, phase_bit(phase))
                    }
                    Err(_) => "err sealed-twice".into(),
                }
            }
            ["oopener", o] => {
                if self.once_openers.len() >= 256 {
                    return "bad-op".into();
                }
                let Some((_, credentials)) = num::<usize>(o).and_then(|o| self.once_sealers.get(o)) else { return "bad-op".into() };
                let mut out = Vec::new();
                let Some(opener) = self.server.open_once(credentials, None, &mut out) else { return "err pre-auth".into() };
                self.once_openers.push(opener);
                format!("ok j={}", self.once_openers.len() - 1)
            }
            ["oopen", j, how, pkt, flip, muts] => {
                let in_place = match *how {
                    "copy" => false,
                    "inplace" => true,
                    _ => return "bad-op".into(),
                };
                let Some(w) = self.wire(pkt, flip, muts) else { return "bad-op".into() };
                let Some(opener) = num::<usize>(j).and_then(|j| self.once_openers.get(j)) else { return "bad-op".into() };
                let r = decrypt_with(opener, in_place, &w);
                let d = format!("{opener:?}");
                let state = format!("opened={} dd={}", b01(&field(&d, "opened: ")), dedup_of(&d));
                match r {
                    Ok(p) => format!("ok {} | {}", hex(&p), state),
                    Err(err) => format!("err {} | {}", err_kind(err), state),
                }
            }
            _ => "bad-op".into(),
        }
    }
}
