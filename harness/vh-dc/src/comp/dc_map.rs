//! `dc_map`: a REAL `path::secret::Map`, populated through the production dc handshake callbacks
//! (`dc::Endpoint::new_path`, `on_path_secrets_ready` with a TLS exporter stub, `on_peer_stateless_reset_tokens`,
//! `on_dc_handshake_complete`), fed with genuine / forged / foreign secret-control packets through the
//! production entry points `dc::Endpoint::on_possible_secret_control_packet` (`ctl`) and
//! `Map::handle_unexpected_packet` (`unexp`).
//!
//!   init <evict 0|1> <peer:suite,peer:suite,..|->   new map; entry k talks to peer index `peer` with
//!                                                   cipher suite 128|256 (same peer twice = re-handshake)
//!   state                                           -> digest
//!   genuine <via> <kind> <k> <qid|-> <v>            packet sealed by entry k's peer
//!   forge <via> <kind> <k> <qid|-> <v> <muts>       the same packet with byte mutations (x<idx>:<xor>, s<idx>:<val>)
//!   cross <via> <kind> <k> <j> <qid|-> <v>          names entry k, sealed with entry j's secrets
//!   alien <via> <kind> <qid|-> <v>                  well-formed packet of a secret this map never saw
//!   raw <via> <hex>                                 arbitrary bytes
//!   age                                             wait until every entry is older than the 10 s eviction guard
//!   next <k>                                        entry k's sender issues a key id
//!   seen <k> <key id>                               entry k's receiver window records a key id
//! kinds: ups | stale | replay (v is ignored for ups). Every packet op answers
//!   ok ev=<subscriber events in emission order> | <digest>
//! digest: secrets=<n> peers=<n> e<k>=<in ids>:<is current for its peer>:<sender current_id>:<receiver minimum_unseen_key_id> .. hs=<peers asked for a handshake>
use super::dc_packets::{apply_mutation, ovi, parse_mutations, vi};
use crate::{util::*, Component};
use s2n_codec::{DecoderBufferMut, EncoderBuffer};
use s2n_quic_core::{
    crypto::tls::{self, CipherSuite, TlsExportError, TlsSession},
    dc::{self, Endpoint as _, Path as _},
    event::IntoEvent,
    inet::SocketAddress,
    stateless_reset,
    varint::VarInt,
};
use s2n_quic_dc::{
    credentials::Credentials,
    event::{self, api},
    packet::{self, secret_control as sc, WireVersion},
    path::secret::{map::Entry, schedule, stateless_reset::Signer, Map},
};
use std::{
    net::SocketAddr,
    sync::{
        atomic::{AtomicU64, Ordering},
        Arc, Mutex,
    },
    time::Duration,
};

pub const NAMES: &[&str] = &["dc_map"];

pub fn make(name: &str) -> Option<Box<dyn Component>> {
    match name {
        "dc_map" => Some(Box::new(DcMap::new(true, &[]))),
        _ => None,
    }
}

struct Exporter([u8; 32], bool);

impl TlsSession for Exporter {
    fn tls_exporter(&self, _label: &[u8], _context: &[u8], output: &mut [u8]) -> Result<(), TlsExportError> {
        output.copy_from_slice(&self.0[..output.len()]);
        Ok(())
    }

    fn cipher_suite(&self) -> CipherSuite {
        if self.1 {
            CipherSuite::TLS_AES_256_GCM_SHA384
        } else {
            CipherSuite::TLS_AES_128_GCM_SHA256
        }
    }

    fn peer_cert_chain_der(&self) -> Result<Vec<Vec<u8>>, tls::ChainError> {
        Err(tls::ChainError::failure())
    }

    fn client_cert_chain_der(&self) -> Result<Option<Vec<u8>>, tls::ChainError> {
        Err(tls::ChainError::failure())
    }
}

#[derive(Default)]
struct Shared {
    /// credential id -> entry index
    ids: Vec<[u8; 16]>,
    events: Vec<String>,
}

impl Shared {
    fn name(&self, id: &[u8]) -> String {
        match self.ids.iter().position(|x| x[..] == *id) {
            Some(k) => format!("e{k}"),
            None => "?".into(),
        }
    }
}

/// records the secret-control and eviction events of the map
struct Recorder(Arc<Mutex<Shared>>);

macro_rules! rec {
    ($self:ident, $event:ident, $label:expr) => {{
        let mut s = $self.0.lock().unwrap();
        let n = s.name($event.credential_id);
        s.events.push(format!("{}:{}", $label, n));
    }};
}

impl event::Subscriber for Recorder {
    type ConnectionContext = ();

    fn create_connection_context(&self, _meta: &api::ConnectionMeta, _info: &api::ConnectionInfo) {}

    fn on_unknown_path_secret_packet_received(&self, _m: &api::EndpointMeta, e: &api::UnknownPathSecretPacketReceived) {
        rec!(self, e, "ups-received")
    }
    fn on_unknown_path_secret_packet_accepted(&self, _m: &api::EndpointMeta, e: &api::UnknownPathSecretPacketAccepted) {
        let mut s = self.0.lock().unwrap();
        let n = s.name(e.credential_id);
        s.events.push(format!("ups-accepted:{n}:evict={}", e.evicted as u8));
    }
    fn on_unknown_path_secret_packet_rejected(&self, _m: &api::EndpointMeta, e: &api::UnknownPathSecretPacketRejected) {
        rec!(self, e, "ups-rejected")
    }
    fn on_unknown_path_secret_packet_dropped(&self, _m: &api::EndpointMeta, e: &api::UnknownPathSecretPacketDropped) {
        rec!(self, e, "ups-dropped")
    }
    fn on_stale_key_packet_received(&self, _m: &api::EndpointMeta, e: &api::StaleKeyPacketReceived) {
        rec!(self, e, "stale-received")
    }
    fn on_stale_key_packet_accepted(&self, _m: &api::EndpointMeta, e: &api::StaleKeyPacketAccepted) {
        rec!(self, e, "stale-accepted")
    }
    fn on_stale_key_packet_rejected(&self, _m: &api::EndpointMeta, e: &api::StaleKeyPacketRejected) {
        rec!(self, e, "stale-rejected")
    }
    fn on_stale_key_packet_dropped(&self, _m: &api::EndpointMeta, e: &api::StaleKeyPacketDropped) {
        rec!(self, e, "stale-dropped")
    }
    fn on_replay_detected_packet_received(&self, _m: &api::EndpointMeta, e: &api::ReplayDetectedPacketReceived) {
        rec!(self, e, "replay-received")
    }
    fn on_replay_detected_packet_accepted(&self, _m: &api::EndpointMeta, e: &api::ReplayDetectedPacketAccepted) {
        let mut s = self.0.lock().unwrap();
        let n = s.name(e.credential_id);
        s.events.push(format!("replay-accepted:{n}:key={}", e.key_id));
    }
    fn on_replay_detected_packet_rejected(&self, _m: &api::EndpointMeta, e: &api::ReplayDetectedPacketRejected) {
        rec!(self, e, "replay-rejected")
    }
    fn on_replay_detected_packet_dropped(&self, _m: &api::EndpointMeta, e: &api::ReplayDetectedPacketDropped) {
        rec!(self, e, "replay-dropped")
    }
    fn on_path_secret_map_id_entry_evicted(&self, _m: &api::EndpointMeta, e: &api::PathSecretMapIdEntryEvicted) {
        rec!(self, e, "evicted-id")
    }
    fn on_path_secret_map_address_entry_evicted(&self, _m: &api::EndpointMeta, e: &api::PathSecretMapAddressEntryEvicted) {
        rec!(self, e, "evicted-addr")
    }
}

struct Ent {
    entry: Arc<Entry>,
    /// the peer's view of the same path secret (seals what our entry accepts)
    peer_secret: schedule::Secret,
    peer: SocketAddr,
    /// the stateless reset token the peer gave us in the handshake
    token: [u8; 16],
}

pub struct DcMap {
    map: Map,
    ents: Vec<Ent>,
    shared: Arc<Mutex<Shared>>,
    handshakes: Arc<Mutex<Vec<SocketAddr>>>,
    peer_signer: Signer,
}

static SERIAL: AtomicU64 = AtomicU64::new(1);

fn peer_addr(idx: usize) -> SocketAddr {
    SocketAddr::from(([10, 0, (idx >> 8) as u8, idx as u8], 4433))
}

fn fresh_material() -> [u8; 32] {
    let serial = SERIAL.fetch_add(1, Ordering::Relaxed);
    let mut material = [0x33u8; 32];
    material[..8].copy_from_slice(&serial.to_be_bytes());
    // separate from key_ids' material
    material[31] = 0x18;
    material
}

impl DcMap {
    fn new(evict: bool, specs: &[(usize, bool)]) -> Self {
        let shared = Arc::new(Mutex::new(Shared::default()));
        let handshakes = Arc::new(Mutex::new(Vec::new()));
        let map = Map::new(
            Signer::new(b"vh-dc-local"),
            64,
            evict,
            s2n_quic_core::time::StdClock::default(),
            Recorder(shared.clone()),
        );
        {
            let hs = handshakes.clone();
            map.register_request_handshake(Box::new(move |peer, _reason| {
                hs.lock().unwrap().push(peer);
                None
            }));
        }
        let mut me = DcMap { map, ents: Vec::new(), shared, handshakes, peer_signer: Signer::new(b"vh-dc-peer") };
        for (peer_idx, aes256) in specs {
            me.handshake(*peer_idx, *aes256);
        }
        me
    }

    /// one production handshake: creates the entry in `ids` and makes it current for its peer
    fn handshake(&mut self, peer_idx: usize, aes256: bool) {
        let material = fresh_material();
        let peer = peer_addr(peer_idx);
        let remote: SocketAddress = peer.into();
        let info = dc::ConnectionInfo::new(
            &remote,
            dc::SUPPORTED_VERSIONS[0],
            dc::testing::TEST_APPLICATION_PARAMS,
            s2n_quic_core::endpoint::Type::Client.into_event(),
        );
        let cs = if aes256 {
            schedule::Ciphersuite::AES_GCM_256_SHA384
        } else {
            schedule::Ciphersuite::AES_GCM_128_SHA256
        };
        let peer_secret =
            schedule::Secret::new(cs, dc::SUPPORTED_VERSIONS[0], s2n_quic_core::endpoint::Type::Server, &material);
        let token = self.peer_signer.sign(peer_secret.id());
        self.shared.lock().unwrap().ids.push(**peer_secret.id());
        let mut m = self.map.clone();
        let mut path = m.new_path(&info).expect("path");
        path.on_path_secrets_ready(&Exporter(material, aes256)).expect("secrets");
        let tok = stateless_reset::Token::from(token);
        path.on_peer_stateless_reset_tokens([tok].iter());
        path.on_dc_handshake_complete();
        let entry = path.entry().expect("entry");
        assert_eq!(peer_secret.id(), entry.id());
        self.ents.push(Ent { entry, peer_secret, peer, token });
    }

    fn current_of(entry: &Entry) -> String {
        let d = format!("{:?}", entry.sender());
        d.split("current_id: ")
            .nth(1)
            .map(|m| m.chars().take_while(|c| c.is_ascii_digit()).collect())
            .unwrap_or_else(|| "?".into())
    }

    fn digest(&self) -> String {
        let mut s = format!("secrets={} peers={}", self.map.secrets_len(), self.map.peers_len());
        for (k, e) in self.ents.iter().enumerate() {
            let mut out = Vec::new();
            let in_ids = self
                .map
                .open_once(&Credentials { id: *e.entry.id(), key_id: VarInt::ZERO }, None, &mut out)
                .is_some();
            let cur = self.map.get_untracked(e.peer).is_some_and(|p| p.id() == e.entry.id());
            s.push_str(&format!(
                " e{k}={}:{}:{}:{}",
                in_ids as u8,
                cur as u8,
                Self::current_of(&e.entry),
                e.entry.receiver().minimum_unseen_key_id().as_u64()
            ));
        }
        let hs = self.handshakes.lock().unwrap();
        let l: Vec<String> = hs
            .iter()
            .map(|a| match a {
                SocketAddr::V4(a) => {
                    let o = a.ip().octets();
                    format!("p{}", ((o[2] as usize) << 8) | o[3] as usize)
                }
                _ => "p?".into(),
            })
            .collect();
        s.push_str(&format!(" hs={}", if l.is_empty() { "-".to_string() } else { l.join(",") }));
        s
    }

    fn build(kind: &str, id: &s2n_quic_dc::credentials::Id, qid: Option<VarInt>, v: VarInt, secret: &schedule::Secret, token: &[u8; 16]) -> Option<Vec<u8>> {
        let mut buf = vec![0u8; sc::MAX_PACKET_SIZE];
        let len = match kind {
            "ups" => sc::UnknownPathSecret { credential_id: *id, wire_version: WireVersion::ZERO, queue_id: qid }
                .encode(EncoderBuffer::new(&mut buf), token),
            "stale" => sc::StaleKey { credential_id: *id, wire_version: WireVersion::ZERO, queue_id: qid, min_key_id: v }
                .encode(EncoderBuffer::new(&mut buf), &secret.control_sealer()),
            "replay" => {
                sc::ReplayDetected { credential_id: *id, wire_version: WireVersion::ZERO, queue_id: qid, rejected_key_id: v }
                    .encode(EncoderBuffer::new(&mut buf), &secret.control_sealer())
            }
            _ => return None,
        };
        buf.truncate(len);
        Some(buf)
    }

    /// hand a datagram payload to the map through a production entry point
    fn deliver(&mut self, via: &str, bytes: &mut [u8]) -> Option<String> {
        self.shared.lock().unwrap().events.clear();
        let from: SocketAddr = SocketAddr::from(([192, 0, 2, 1], 9));
        let how = match via {
            "ctl" => {
                let remote: SocketAddress = from.into();
                let info = dc::DatagramInfo::new(&remote);
                let mut m = self.map.clone();
                if m.on_possible_secret_control_packet(&info, bytes) {
                    "handled"
                } else {
                    "ignored"
                }
            }
            "unexp" => match DecoderBufferMut::new(bytes).decode_parameterized::<packet::Packet>(16) {
                Ok((p, _rest)) => {
                    self.map.handle_unexpected_packet(&p, &from);
                    "handled"
                }
                Err(_) => "ignored",
            },
            _ => return None,
        };
        let ev = self.shared.lock().unwrap().events.join(",");
        Some(format!("ok {how} ev={} | {}", if ev.is_empty() { "-" } else { &ev }, self.digest()))
    }
}

impl Component for DcMap {
    fn step(&mut self, t: &[&str]) -> String {
        match t {
            ["init", evict, specs] => {
                let evict = match *evict {
                    "0" => false,
                    "1" => true,
                    _ => return "bad-op".into(),
                };
                let mut v = Vec::new();
                if *specs != "-" {
                    for s in specs.split(',') {
                        let Some((p, c)) = s.split_once(':') else { return "bad-op".into() };
                        let Some(p) = num::<usize>(p) else { return "bad-op".into() };
                        let c = match c {
                            "128" => false,
                            "256" => true,
                            _ => return "bad-op".into(),
                        };
                        if p > 1000 {
                            return "bad-op".into();
                        }
                        v.push((p, c));
                    }
                }
                if v.len() > 32 {
                    return "bad-op".into();
                }
                *self = DcMap::new(evict, &v);
                format!("ok {}", self.digest())
            }
            ["state"] => format!("ok {}", self.digest()),
            ["genuine", via, kind, k, qid, v] | ["forge", via, kind, k, qid, v, _] => {
                let (Some(k), Some(qid), Some(v)) = (num::<usize>(k), ovi(qid), vi(v)) else { return "bad-op".into() };
                let Some(e) = self.ents.get(k) else { return "bad-op".into() };
                let Some(mut bytes) = Self::build(kind, e.entry.id(), qid, v, &e.peer_secret, &e.token) else {
                    return "bad-op".into();
                };
                if let ["forge", .., muts] = t {
                    let Some(ms) = parse_mutations(muts, bytes.len()) else { return "bad-op".into() };
                    let orig = bytes.clone();
                    for (i, set, x) in ms {
                        apply_mutation(&mut bytes, i, set, x);
                    }
                    if bytes == orig {
                        return format!("ok same | {}", self.digest());
                    }
                }
                self.deliver(via, &mut bytes).unwrap_or_else(|| "bad-op".into())
            }
            ["cross", via, kind, k, j, qid, v] => {
                let (Some(k), Some(j), Some(qid), Some(v)) = (num::<usize>(k), num::<usize>(j), ovi(qid), vi(v)) else {
                    return "bad-op".into();
                };
                if k == j {
                    return "bad-op".into();
                }
                let (Some(e), Some(o)) = (self.ents.get(k), self.ents.get(j)) else { return "bad-op".into() };
                let Some(mut bytes) = Self::build(kind, e.entry.id(), qid, v, &o.peer_secret, &o.token) else {
                    return "bad-op".into();
                };
                self.deliver(via, &mut bytes).unwrap_or_else(|| "bad-op".into())
            }
            ["alien", via, kind, qid, v] => {
                let (Some(qid), Some(v)) = (ovi(qid), vi(v)) else { return "bad-op".into() };
                let material = fresh_material();
                let secret = schedule::Secret::new(
                    schedule::Ciphersuite::AES_GCM_128_SHA256,
                    dc::SUPPORTED_VERSIONS[0],
                    s2n_quic_core::endpoint::Type::Server,
                    &material,
                );
                let token = self.peer_signer.sign(secret.id());
                let Some(mut bytes) = Self::build(kind, secret.id(), qid, v, &secret, &token) else {
                    return "bad-op".into();
                };
                self.deliver(via, &mut bytes).unwrap_or_else(|| "bad-op".into())
            }
            ["raw", via, h] => {
                let Some(mut bytes) = unhex(h) else { return "bad-op".into() };
                self.deliver(via, &mut bytes).unwrap_or_else(|| "bad-op".into())
            }
            ["age"] => {
                // the eviction guard is real time (`Instant::now()` in `Entry::new`)
                let youngest = self.ents.iter().map(|e| e.entry.age()).min();
                if let Some(age) = youngest {
                    let want = Duration::from_millis(10_050);
                    if age < want {
                        std::thread::sleep(want - age);
                    }
                }
                "ok".into()
            }
            ["next", k] => {
                let Some(e) = num::<usize>(k).and_then(|k| self.ents.get(k)) else { return "bad-op".into() };
                let entry = e.entry.clone();
                match std::panic::catch_unwind(std::panic::AssertUnwindSafe(|| entry.sender().next_key_id().as_u64())) {
                    Ok(id) => format!("ok {id}"),
                    Err(_) => "err exhausted".into(),
                }
            }
            ["seen", k, key_id] => {
                let (Some(e), Some(key_id)) = (num::<usize>(k).and_then(|k| self.ents.get(k)), vi(key_id)) else {
                    return "bad-op".into();
                };
                match e.entry.receiver().post_authentication(&Credentials { id: *e.entry.id(), key_id }) {
                    Ok(()) => "ok".into(),
                    Err(err) => format!("err {err:?}"),
                }
            }
            _ => "bad-op".into(),
        }
    }
}
