import QuicProofs.Lemmas.Recovery
open Quic.Recovery Quic.Recovery.Rtt

theorem detect_spec (thr sent k pn la now : Nat) :
    Loss.detect thr sent k pn la now =
      if la ≤ pn then none
      else if sent + thr / 1000 < now + 1000 ∨ la - pn ≥ k then some Loss.Outcome.lost
      else some (Loss.Outcome.notLostYet (sent + thr / 1000)) := by
  unfold Loss.detect Time.hasElapsed Time.tsAdd Time.K_GRANULARITY_US
  by_cases h1 : la ≤ pn
  · have : decide (la > pn) = false := by simp; omega
    simp [this, h1]
  · have : decide (la > pn) = true := by simp; omega
    simp only [this, h1, Bool.not_true, Bool.false_eq_true, if_false]
    by_cases h2 : sent + thr / 1000 < now + 1000 ∨ la - pn ≥ k
    · simp only [h2, if_true]
      rcases h2 with h2 | h2 <;> simp [h2]
    · simp only [h2, if_false]
      have h3 : ¬ (sent + thr / 1000 < now + 1000) := fun h => h2 (Or.inl h)
      have h4 : ¬ (la - pn ≥ k) := fun h => h2 (Or.inr h)
      simp [h3, h4]

theorem loss_time_threshold_spec (r : RttEstimator)
    (h1 : r.smoothedRtt < 18446744073709551616) (h2 : r.latestRtt < 18446744073709551616) :
    lossTimeThreshold r = max (9 * max r.smoothedRtt r.latestRtt / 8) 1000000 := by
  simp only [lossTimeThreshold, u64, K_GRANULARITY, Nat.mod_eq_of_lt h1, Nat.mod_eq_of_lt h2]
  rcases Nat.le_total r.smoothedRtt r.latestRtt with h | h
  · simp only [Nat.max_eq_right h]; omega
  · simp only [Nat.max_eq_left h]; omega

example : lossTimeThreshold { latestRtt := 8000000, minRtt := 1, smoothedRtt := 4000000, rttvar := 0,
    maxAckDelay := 0, firstRttSample := none } = 9000000 := by decide
