#!/bin/bash
cd /tmp/wk-recovery
M=.scratch/mutate.sh
L=quic/s2n-quic-core/src/recovery/loss.rs
R=quic/s2n-quic-core/src/recovery/rtt_estimator.rs
T=quic/s2n-quic-core/src/time/timestamp.rs
P=quic/s2n-quic-core/src/recovery/pto.rs
$M M2-K-3-to-2 $L 's/pub const K_PACKET_THRESHOLD: u64 = 3;/pub const K_PACKET_THRESHOLD: u64 = 2;/'
$M M3-elapsed-lt-to-le $T 's/        self.0.get() < now$/        self.0.get() <= now/'
$M M4-ninth-to-quarter $R 's|time_threshold += time_threshold / 8;|time_threshold += time_threshold / 4;|'
$M M5-drop-min-ackdelay $R 's|ack_delay = min(ack_delay, self.max_ack_delay);|ack_delay = ack_delay.max(Duration::ZERO);|'
$M M6-adjust-lt-to-le $R 's|if self.min_rtt + ack_delay < self.latest_rtt {|if self.min_rtt + ack_delay <= self.latest_rtt {|'
$M M7-minrtt-max $R 's|self.min_rtt = min(self.min_rtt, self.latest_rtt);|self.min_rtt = max(self.min_rtt, self.latest_rtt);|'
$M M8-pto-count $P 's|let transmission_count = if packets_in_flight { 2 } else { 1 };|let transmission_count = if packets_in_flight { 1 } else { 2 };|'
$M M9-weights $R 's|self.smoothed_rtt = weighted_average(self.smoothed_rtt, adjusted_rtt, 8);|self.smoothed_rtt = weighted_average(self.smoothed_rtt, adjusted_rtt, 4);|'
$M M10-pto-drop-gran $R 's|pto_period = pto_period.max(K_GRANULARITY.as_micros() as u64);|pto_period = pto_period.max(0);|'
$M M11-2ms-granularity $T 's|now += K_GRANULARITY.as_micros() as u64;|now += 2 * K_GRANULARITY.as_micros() as u64;|'
$M M12-pto-backoff-add $R 's|pto_period \*= pto_backoff as u64;|pto_period += pto_backoff as u64;|'
