#!/bin/bash
# usage: mutate.sh <name> <file> <sed-expr>
set -e
name=$1; file=$2; expr=$3
cd /tmp/wk-recovery-repo
cp "$file" /tmp/wk-recovery/.scratch/orig.rs
sed -i "$expr" "$file"
if cmp -s "$file" /tmp/wk-recovery/.scratch/orig.rs; then echo "MUTATION $name: NO CHANGE"; exit 0; fi
cd /tmp/wk-recovery
out=$(VERIF_REPO=/tmp/wk-recovery-repo ./check C09 --tier quick 2>&1 | tail -4)
rc=$?
echo "=== MUTATION $name ==="
echo "$out" | cut -c1-300
python3 - <<'PY'
import json
e=json.load(open("/tmp/wk-recovery/evidence/C09.json"))
for o in e["coverage"]["failed_obligations"]:
    print("  FAILED:", o["kind"], o["name"][:100], "|", (o.get("detail") or "")[-300:].replace("\n"," ")[:300])
PY
cp /tmp/wk-recovery/.scratch/orig.rs "/tmp/wk-recovery-repo/$file"
