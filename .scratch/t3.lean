import QuicProofs.Lemmas.Recovery
open Quic.Recovery Quic.Recovery.Rtt Quic.Proofs.Lemmas.Recovery

theorem basePto_exact (r : RttEstimator) (sp : Space)
    (hs : r.smoothedRtt % 1000 = 0) (hv : r.rttvar % 1000 = 0) (hm : r.maxAckDelay % 1000 = 0)
    (hd1 : r.smoothedRtt < 18446744073709551616) (hd2 : r.rttvar < 4611686018427387904)
    (hd3 : r.maxAckDelay < 18446744073709551616) :
    calculateBasePtoMicros r 1 sp * 1000 =
      r.smoothedRtt + max (4 * r.rttvar) 1000000 + (if sp.isApplicationData = true then r.maxAckDelay else 0) := by
  have e1 : u64 (r.smoothedRtt / 1000) = r.smoothedRtt / 1000 := by unfold u64; omega
  have e2 : u64 (r.rttvar / 1000) = r.rttvar / 1000 := by unfold u64; omega
  have e3 : u64 (r.maxAckDelay / 1000) = r.maxAckDelay / 1000 := by unfold u64; omega
  have e4 : u64 (4 * (r.rttvar / 1000) * 1000 / 1000) = 4 * (r.rttvar / 1000) := by unfold u64; omega
  simp only [calculateBasePtoMicros, rttvar4x, e1, e2, e3, e4, gran_us, Nat.mul_one]
  split
  · rcases Nat.le_total (4 * (r.rttvar / 1000)) 1000 with h | h
    · rw [Nat.max_eq_right h, Nat.max_eq_right (by omega)]; omega
    · rw [Nat.max_eq_left h, Nat.max_eq_left (by omega)]; omega
  · rcases Nat.le_total (4 * (r.rttvar / 1000)) 1000 with h | h
    · rw [Nat.max_eq_right h, Nat.max_eq_right (by omega)]; omega
    · rw [Nat.max_eq_left h, Nat.max_eq_left (by omega)]; omega
