import QuicProofs.Lemmas.Recovery
open Quic.Recovery Quic.Recovery.Rtt Quic.Proofs.Lemmas.Recovery
theorem detect_eq_rfc (thr sent pn la now : Nat) (h : pn < la) :
    Loss.detect thr sent Loss.K_PACKET_THRESHOLD pn la now = some Loss.Outcome.lost ↔
      Quic.Rfc.Recovery.lostCond thr (sent * 1000) pn la (now * 1000 + (Quic.Rfc.Recovery.kGranularity - 1)) = true := by
  rw [detect_spec]
  simp only [Loss.K_PACKET_THRESHOLD, Quic.Rfc.Recovery.lostCond, Quic.Rfc.Recovery.kPacketThreshold,
    Quic.Rfc.Recovery.kGranularity, Bool.and_eq_true, Bool.or_eq_true, decide_eq_true_eq]
  have h1 : ¬ la ≤ pn := by omega
  simp only [h1, if_false]
  by_cases h2 : sent + thr / 1000 < now + 1000 ∨ la - pn ≥ 3
  · simp only [h2, if_true, true_iff]
    constructor
    · omega
    · rcases h2 with h2 | h2
      · left; exact decide_eq_true (by omega)
      · right; exact decide_eq_true (by omega)
  · sorry
theorem pto_ge_granularity (r : RttEstimator) (backoff : Nat) (sp : Space) :
    K_GRANULARITY ≤ ptoPeriod r backoff sp := by
  simp only [ptoPeriod, gran_us, K_GRANULARITY]
  trace_state
  omega
