// Copyright Amazon.com, Inc. or its affiliates. All Rights Reserved.
// SPDX-License-Identifier: Apache-2.0

use crate::{
    packet::number::PacketNumberSpace, random, time::Timestamp, transport::parameters::MaxAckDelay,
};
use core::{
    cmp::{max, min},
    time::Duration,
};

//= https://www.rfc-editor.org/rfc/rfc9002#section-6.2.2
//# When no previous RTT is available, the initial RTT
//# SHOULD be set to 333 milliseconds.  This results in handshakes
//# starting with a PTO of 1 second, as recommended for TCP's initial
//# RTO; see Section 2 of [RFC6298].
pub const DEFAULT_INITIAL_RTT: Duration = Duration::from_millis(333);

/// The lowest RTT value that the RTT Estimator is capable of tracking
pub const MIN_RTT: Duration = Duration::from_micros(1);

const ZERO_DURATION: Duration = Duration::from_millis(0);

//= https://www.rfc-editor.org/rfc/rfc9002#section-6.1.2
//# The RECOMMENDED value of the timer granularity (kGranularity) is 1 millisecond.
pub const K_GRANULARITY: Duration = Duration::from_millis(1);

//= https://www.rfc-editor.org/rfc/rfc9002#section-7.6.1
//# The RECOMMENDED value for kPersistentCongestionThreshold is 3, which
//# results in behavior that is approximately equivalent to a TCP sender
//# declaring an RTO after two TLPs.
const K_PERSISTENT_CONGESTION_THRESHOLD: u64 = 3;

#[derive(Clone, Copy, Debug, PartialEq, Eq, Hash)]
pub struct RttEstimator {
    /// Latest RTT sample
    latest_rtt: Duration,
    /// The minimum value observed over the lifetime of the connection
    min_rtt: Duration,
    /// An exponentially-weighted moving average
    smoothed_rtt: Duration,
    /// The variance in the observed RTT samples
    rttvar: Duration,
    /// The maximum amount of time by which the receiver intends to delay acknowledgments for
    /// packets in the ApplicationData packet number space. The actual ack_delay in a received
    /// ACK frame may be larger due to late timers, reordering, or lost ACK frames.
    max_ack_delay: Duration,
    /// The time that the first RTT sample was obtained
    first_rtt_sample: Option<Timestamp>,
}

impl Default for RttEstimator {
    /// Creates a new RTT Estimator with default initial values
    fn default() -> Self {
        RttEstimator::new(DEFAULT_INITIAL_RTT)
    }
}

impl RttEstimator {
    /// Creates a new RTT Estimator with the given `initial_rtt`
    ///
    /// `on_max_ack_delay` must be called when the `max_ack_delay` transport
    /// parameter is received to initialize the `max_ack_delay` value.
    #[inline]
    pub fn new(initial_rtt: Duration) -> Self {
        Self::new_with_max_ack_delay(Duration::ZERO, initial_rtt)
    }

    /// Creates a new RTT Estimator with the provided initial values using the given `max_ack_delay`.
    #[inline]
    fn new_with_max_ack_delay(max_ack_delay: Duration, initial_rtt: Duration) -> Self {
        debug_assert!(initial_rtt >= MIN_RTT);
        let initial_rtt = initial_rtt.max(MIN_RTT);

        //= https://www.rfc-editor.org/rfc/rfc9002#section-5.3
        //# Before any RTT samples are available for a new path or when the
        //# estimator is reset, the estimator is initialized using the initial RTT;
        //# see Section 6.2.2.
        //#
        //# smoothed_rtt and rttvar are initialized as follows, where kInitialRtt
        //# contains the initial RTT value:
        //
        //# smoothed_rtt = kInitialRtt
        //# rttvar = kInitialRtt / 2
        let smoothed_rtt = initial_rtt;
        let rttvar = initial_rtt / 2;

        Self {
            latest_rtt: initial_rtt,
            min_rtt: initial_rtt,
            smoothed_rtt,
            rttvar,
            max_ack_delay,
            first_rtt_sample: None,
        }
    }

    /// Creates a new RTT Estimator with the `max_ack_delay` from the current instance
    pub fn for_new_path(&self, initial_rtt: Duration) -> Self {
        Self::new_with_max_ack_delay(self.max_ack_delay, initial_rtt)
    }

    /// Gets the latest round trip time sample
    #[inline]
    pub fn latest_rtt(&self) -> Duration {
        self.latest_rtt
    }

    /// Gets the weighted average round trip time
    #[inline]
    pub fn smoothed_rtt(&self) -> Duration {
        self.smoothed_rtt
    }

    /// Gets the minimum round trip time
    #[inline]
    pub fn min_rtt(&self) -> Duration {
        self.min_rtt
    }

    /// Gets the variance in observed round trip time samples
    #[inline]
    pub fn rttvar(&self) -> Duration {
        self.rttvar
    }

    /// Gets the timestamp of the first RTT sample
    #[inline]
    pub fn first_rtt_sample(&self) -> Option<Timestamp> {
        self.first_rtt_sample
    }

    /// Gets the max_ack_delay
    #[inline]
    pub fn max_ack_delay(&self) -> Duration {
        self.max_ack_delay
    }

    /// Calculates the base PTO period in microseconds according to RFC 9002
    #[inline]
    fn calculate_base_pto_micros(&self, pto_backoff: u32, space: PacketNumberSpace) -> u64 {
        // We operate on microseconds rather than `Duration` to improve efficiency.
        // See https://godbolt.org/z/osEd9rj9a

        //= https://www.rfc-editor.org/rfc/rfc9002#section-6.2.1
        //# When an ack-eliciting packet is transmitted, the sender schedules a
        //# timer for the PTO period as follows:
        //#
        //# PTO = smoothed_rtt + max(4*rttvar, kGranularity) + max_ack_delay
        let mut pto_period = self.smoothed_rtt().as_micros() as u64;

        //= https://www.rfc-editor.org/rfc/rfc9002#section-6.2.1
        //# The PTO period MUST be at least kGranularity, to avoid the timer
        //# expiring immediately.
        pto_period += max(
            self.rttvar_4x().as_micros() as u64,
            K_GRANULARITY.as_micros() as u64,
        );

        //= https://www.rfc-editor.org/rfc/rfc9002#section-6.2.1
        //# When the PTO is armed for Initial or Handshake packet number spaces,
        //# the max_ack_delay in the PTO period computation is set to 0, since
        //# the peer is expected to not delay these packets intentionally; see
        //# Section 13.2.1 of [QUIC-TRANSPORT].
        if space.is_application_data() {
            pto_period += self.max_ack_delay.as_micros() as u64;
        }

        //= https://www.rfc-editor.org/rfc/rfc9002#section-6.2.1
        //# Even when there are ack-eliciting packets in flight in multiple
        //# packet number spaces, the exponential increase in PTO occurs across
        //# all spaces to prevent excess load on the network.  For example, a
        //# timeout in the Initial packet number space doubles the length of
        //# the timeout in the Handshake packet number space.
        pto_period *= pto_backoff as u64;

        pto_period
    }

    /// Calculates the PTO period based on the standard RFC 9002 PTO calculation
    ///
    /// # Arguments
    /// * `pto_backoff` - The PTO backoff multiplier
    /// * `space` - The packet number space
    ///
    /// # Returns
    /// The PTO period, guaranteed to be >= kGranularity
    #[inline]
    pub fn pto_period(&self, pto_backoff: u32, space: PacketNumberSpace) -> Duration {
        let mut pto_period = self.calculate_base_pto_micros(pto_backoff, space);

        //= https://www.rfc-editor.org/rfc/rfc9002#section-6.2.1
        //# The PTO period MUST be at least kGranularity, to avoid the timer
        //# expiring immediately.
        pto_period = pto_period.max(K_GRANULARITY.as_micros() as u64);

        //= https://www.rfc-editor.org/rfc/rfc9002#section-6.2.1
        //# The PTO period is the amount of time that a sender ought to wait for
        //# an acknowledgement of a sent packet.
        Duration::from_micros(pto_period)
    }

    /// Calculates the PTO period with configurable jitter
    ///
    /// This method applies the standard RFC 9002 PTO calculation and optionally adds
    /// percentage-based random jitter to help prevent synchronized timeouts across
    /// multiple connections.
    ///
    /// # Arguments
    /// * `pto_backoff` - The PTO backoff multiplier
    /// * `space` - The packet number space
    /// * `pto_jitter_percentage` - Jitter percentage (0-50)
    /// * `random_generator` - Random number generator for jitter calculation
    ///
    /// # Returns
    /// The PTO period with jitter applied, guaranteed to be >= kGranularity
    #[inline]
    pub fn pto_period_with_jitter(
        &self,
        pto_backoff: u32,
        space: PacketNumberSpace,
        pto_jitter_percentage: u8,
        random_generator: &mut dyn random::Generator,
    ) -> Duration {
        // Calculate the base PTO period using the shared implementation
        let mut pto_period = self.calculate_base_pto_micros(pto_backoff, space);

        // Apply jitter if configured
        let jitter_amount =
            calculate_jitter_amount(pto_period, pto_jitter_percentage, random_generator);
        pto_period = (pto_period as i64 + jitter_amount) as u64;

        //= https://www.rfc-editor.org/rfc/rfc9002#section-6.2.1
        //# The PTO period MUST be at least kGranularity, to avoid the timer
        //# expiring immediately.
        pto_period = pto_period.max(K_GRANULARITY.as_micros() as u64);

        //= https://www.rfc-editor.org/rfc/rfc9002#section-6.2.1
        //# The PTO period is the amount of time that a sender ought to wait for
        //# an acknowledgement of a sent packet.
        Duration::from_micros(pto_period)
    }

    /// Sets the `max_ack_delay` value from the peer `MaxAckDelay` transport parameter
    pub fn on_max_ack_delay(&mut self, max_ack_delay: MaxAckDelay) {
        self.max_ack_delay = max_ack_delay.as_duration()
    }

    /// Updates the RTT estimate using the given `rtt_sample`
    #[inline]
    pub fn update_rtt(
        &mut self,
        mut ack_delay: Duration,
        rtt_sample: Duration,
        timestamp: Timestamp,
        is_handshake_confirmed: bool,
        space: PacketNumberSpace,
    ) {
        self.latest_rtt = rtt_sample.max(MIN_RTT);

        if self.first_rtt_sample.is_none() {
            self.first_rtt_sample = Some(timestamp);
            //= https://www.rfc-editor.org/rfc/rfc9002#section-5.2
            //# min_rtt MUST be set to the latest_rtt on the first RTT sample.
            self.min_rtt = self.latest_rtt;
            //= https://www.rfc-editor.org/rfc/rfc9002#section-5.3
            //# On the first RTT sample after initialization, smoothed_rtt and rttvar
            //# are set as follows:
            //#
            //# smoothed_rtt = latest_rtt
            //# rttvar = latest_rtt / 2
            self.smoothed_rtt = self.latest_rtt;
            self.rttvar = self.latest_rtt / 2;
            return;
        }

        //= https://www.rfc-editor.org/rfc/rfc9002#section-5.2
        //# min_rtt MUST be set to the lesser of min_rtt and latest_rtt
        //# (Section 5.1) on all other samples.
        self.min_rtt = min(self.min_rtt, self.latest_rtt);

        //= https://www.rfc-editor.org/rfc/rfc9002#section-5.3
        //# when adjusting an RTT sample using peer-reported
        //# acknowledgment delays, an endpoint:
        //#
        //# *  MAY ignore the acknowledgment delay for Initial packets, since
        //#    these acknowledgments are not delayed by the peer (Section 13.2.1
        //#    of [QUIC-TRANSPORT]);
        if space.is_initial() {
            ack_delay = ZERO_DURATION;
        }

        //= https://www.rfc-editor.org/rfc/rfc9002#section-5.3
        //# To account for this, the endpoint SHOULD ignore
        //# max_ack_delay until the handshake is confirmed, as defined in
        //# Section 4.1.2 of [QUIC-TLS].

        //= https://www.rfc-editor.org/rfc/rfc9002#section-5.3
        //# *  SHOULD ignore the peer's max_ack_delay until the handshake is
        //#    confirmed;
        if is_handshake_confirmed {
            //= https://www.rfc-editor.org/rfc/rfc9002#section-5.3
            //# *  MUST use the lesser of the acknowledgement delay and the peer's
            //#    max_ack_delay after the handshake is confirmed; and
            ack_delay = min(ack_delay, self.max_ack_delay);
        }

        let mut adjusted_rtt = self.latest_rtt;

        //= https://www.rfc-editor.org/rfc/rfc9002#section-5.3
        //# *  MUST NOT subtract the acknowledgement delay from the RTT sample if
        //#    the resulting value is smaller than the min_rtt.
        if self.min_rtt + ack_delay < self.latest_rtt {
            adjusted_rtt -= ack_delay;
        } else if !is_handshake_confirmed {
            //= https://www.rfc-editor.org/rfc/rfc9002#section-5.3
            //# Therefore, prior to handshake
            //# confirmation, an endpoint MAY ignore RTT samples if adjusting the RTT
            //# sample for acknowledgement delay causes the sample to be less than
            //# the min_rtt.
            return;
        }

        //= https://www.rfc-editor.org/rfc/rfc9002#section-5.3
        //# On subsequent RTT samples, smoothed_rtt and rttvar evolve as follows:
        //#
        //# ack_delay = decoded acknowledgment delay from ACK frame
        //# if (handshake confirmed):
        //# ack_delay = min(ack_delay, max_ack_delay)
        //# adjusted_rtt = latest_rtt
        //# if (latest_rtt >= min_rtt + ack_delay):
        //#     adjusted_rtt = latest_rtt - ack_delay
        //# smoothed_rtt = 7/8 * smoothed_rtt + 1/8 * adjusted_rtt
        //# rttvar_sample = abs(smoothed_rtt - adjusted_rtt)
        //# rttvar = 3/4 * rttvar + 1/4 * rttvar_sample

        // this logic has been updated to follow the errata reported in https://www.rfc-editor.org/errata/eid7539
        let rttvar_sample = self.smoothed_rtt.abs_diff(adjusted_rtt);
        self.rttvar = weighted_average(self.rttvar, rttvar_sample, 4);
        self.smoothed_rtt = weighted_average(self.smoothed_rtt, adjusted_rtt, 8);
    }

    /// Calculates the persistent congestion threshold used for determining
    /// if persistent congestion is being encountered.
    #[inline]
    pub fn persistent_congestion_threshold(&self) -> Duration {
        // Since K_GRANULARITY is 1ms, we operate on milliseconds rather than `Duration` to improve efficiency.
        // See https://godbolt.org/z/4o71WPods

        //= https://www.rfc-editor.org/rfc/rfc9002#section-7.6.1
        //# The persistent congestion duration is computed as follows:
        //#
        //# (smoothed_rtt + max(4*rttvar, kGranularity) + max_ack_delay) *
        //#     kPersistentCongestionThreshold
        //#
        //# Unlike the PTO computation in Section 6.2, this duration includes the
        //# max_ack_delay irrespective of the packet number spaces in which
        //# losses are established.
        //#
        //# This duration allows a sender to send as many packets before
        //# establishing persistent congestion, including some in response to PTO
        //# expiration, as TCP does with Tail Loss Probes [RFC8985] and an RTO
        //# [RFC5681].
        Duration::from_millis(
            (self.smoothed_rtt.as_millis() as u64
                + max(
                    self.rttvar_4x().as_millis() as u64,
                    K_GRANULARITY.as_millis() as u64,
                )
                + self.max_ack_delay.as_millis() as u64)
                * K_PERSISTENT_CONGESTION_THRESHOLD,
        )
    }

    #[inline]
    pub fn loss_time_threshold(&self) -> Duration {
        //= https://www.rfc-editor.org/rfc/rfc9002#section-6.1.2
        //# The time threshold is:
        //#
        //# max(kTimeThreshold * max(smoothed_rtt, latest_rtt), kGranularity)
        let mut time_threshold = max(
            self.smoothed_rtt().as_nanos() as u64,
            self.latest_rtt().as_nanos() as u64,
        );

        //= https://www.rfc-editor.org/rfc/rfc9002#section-6.1.2
        //# The RECOMMENDED time threshold (kTimeThreshold), expressed as an
        //# RTT multiplier, is 9/8.
        time_threshold += time_threshold / 8;

        //= https://www.rfc-editor.org/rfc/rfc9002#section-6.1.2
        //# To avoid declaring
        //# packets as lost too early, this time threshold MUST be set to at
        //# least the local timer granularity, as indicated by the kGranularity
        //# constant.
        let time_threshold = max(time_threshold, K_GRANULARITY.as_nanos() as u64);

        Duration::from_nanos(time_threshold)
    }

    /// Allows min_rtt and smoothed_rtt to be overwritten on the next RTT sample
    /// after persistent congestion is established.
    #[inline]
    pub fn on_persistent_congestion(&mut self) {
        //= https://www.rfc-editor.org/rfc/rfc9002#section-5.2
        //# Endpoints SHOULD set the min_rtt to the newest RTT sample after
        //# persistent congestion is established.
        self.first_rtt_sample = None;
    }

    #[inline]
    fn rttvar_4x(&self) -> Duration {
        // Operate on micros instead, as it's more efficient and we don't need the precision Duration gives
        Duration::from_micros(4 * self.rttvar.as_micros() as u64)
    }
}

/// Optimized function for averaging two durations with a weight
/// See https://godbolt.org/z/65f9bYEcs
#[inline]
fn weighted_average(a: Duration, b: Duration, weight: u64) -> Duration {
    let mut a = a.as_nanos() as u64;
    // it's more accurate to multiply first but it risks overflow so we divide first
    a /= weight;
    a *= weight - 1;

    let mut b = b.as_nanos() as u64;
    b /= weight;

    Duration::from_nanos(a + b)
}

/// Calculates the jitter amount in microseconds for PTO period
///
/// Returns a jitter value within ±jitter_percentage of the base PTO period.
///
/// # Arguments
/// * `base_pto_micros` - Base PTO period in microseconds
/// * `jitter_percentage` - Jitter percentage (0-50)
/// * `random_generator` - Random number generator
///
/// # Returns
/// Jitter amount in microseconds (can be negative)
#[inline]
fn calculate_jitter_amount(
    base_pto_micros: u64,
    jitter_percentage: u8,
    random_generator: &mut dyn random::Generator,
) -> i64 {
    if jitter_percentage == 0 {
        return 0;
    }

    // Calculate max jitter in microseconds
    let max_jitter_micros = (base_pto_micros * jitter_percentage as u64) / 100;

    // Use gen_range_biased to generate value in range [0, 2 * max_jitter]
    // The very slight amount of bias this method will impose towards the lower
    // range of values will result in a slight bias towards lower PTO values,
    // but are not significant enough to impact this feature or reveal any
    // sensitive inputs.
    let jitter_range = 2 * max_jitter_micros as usize;
    let random_value = random::gen_range_biased(random_generator, 0..=jitter_range);

    // Convert to range [-max_jitter, +max_jitter]
    (random_value as i64) - (max_jitter_micros as i64)
}

#[cfg(test)]
mod test {
    use super::*;
    use crate::{
        connection::limits::{DEFAULT_PTO_JITTER_PERCENTAGE, MAX_PTO_JITTER_PERCENTAGE},
        packet::number::PacketNumberSpace,
        path::INITIAL_PTO_BACKOFF,
        time::{Clock, Duration, NoopClock},
        transport::parameters::MaxAckDelay,
        varint::VarInt,
    };

    /// Test the initial values before any RTT samples
    #[test]
    fn initial_rtt_across_spaces() {
        let rtt_estimator =
            RttEstimator::new_with_max_ack_delay(Duration::from_millis(10), DEFAULT_INITIAL_RTT);
        assert_eq!(rtt_estimator.min_rtt, DEFAULT_INITIAL_RTT);
        assert_eq!(rtt_estimator.latest_rtt(), DEFAULT_INITIAL_RTT);
        assert_eq!(rtt_estimator.smoothed_rtt(), DEFAULT_INITIAL_RTT);
        assert_eq!(rtt_estimator.rttvar(), DEFAULT_INITIAL_RTT / 2);
        assert_eq!(
            rtt_estimator.pto_period(INITIAL_PTO_BACKOFF, PacketNumberSpace::Initial),
            Duration::from_millis(999)
        );
        assert_eq!(
            rtt_estimator.pto_period(INITIAL_PTO_BACKOFF, PacketNumberSpace::Handshake),
            Duration::from_millis(999)
        );
        assert_eq!(
            rtt_estimator.pto_period(INITIAL_PTO_BACKOFF, PacketNumberSpace::ApplicationData),
            Duration::from_millis(1009)
        );
    }

    /// Test a zero RTT value is treated as 1 µs
    #[test]
    fn zero_rtt_sample() {
        let mut rtt_estimator = RttEstimator::new(DEFAULT_INITIAL_RTT);
        let now = NoopClock.get_time();
        rtt_estimator.update_rtt(
            Duration::from_millis(10),
            Duration::from_millis(0),
            now,
            false,
            PacketNumberSpace::ApplicationData,
        );
        assert_eq!(rtt_estimator.min_rtt, MIN_RTT);
        assert_eq!(rtt_estimator.latest_rtt(), MIN_RTT);
        assert_eq!(rtt_estimator.first_rtt_sample(), Some(now));
        assert_eq!(
            rtt_estimator.pto_period(INITIAL_PTO_BACKOFF, PacketNumberSpace::Initial),
            Duration::from_micros(1001)
        );
    }

    #[test]
    fn for_new_path() {
        let mut rtt_estimator = RttEstimator::default();
        let max_ack_delay = Duration::from_millis(10);
        rtt_estimator.on_max_ack_delay(max_ack_delay.try_into().unwrap());
        let new_path_rtt_estimator = rtt_estimator.for_new_path(DEFAULT_INITIAL_RTT);
        assert_eq!(max_ack_delay, new_path_rtt_estimator.max_ack_delay)
    }

    //= https://www.rfc-editor.org/rfc/rfc9002#section-5.3
    //= type=test
    //# *  MUST use the lesser of the acknowledgement delay and the peer's
    //#    max_ack_delay after the handshake is confirmed;
    #[test]
    fn max_ack_delay() {
        let mut rtt_estimator = RttEstimator::default();
        assert_eq!(Duration::ZERO, rtt_estimator.max_ack_delay);

        rtt_estimator.on_max_ack_delay(MaxAckDelay::new(VarInt::from_u8(10)).unwrap());
        assert_eq!(Duration::from_millis(10), rtt_estimator.max_ack_delay);

        let now = NoopClock.get_time();
        rtt_estimator.update_rtt(
            Duration::from_millis(0),
            Duration::from_millis(100),
            now,
            true,
            PacketNumberSpace::ApplicationData,
        );

        // Update when the handshake is confirmed
        rtt_estimator.update_rtt(
            Duration::from_millis(1000),
            Duration::from_millis(200),
            now,
            true,
            PacketNumberSpace::ApplicationData,
        );

        //= https://www.rfc-editor.org/rfc/rfc9002#section-5.3
        //= type=test
        //# *  MUST use the lesser of the acknowledgement delay and the peer's
        //# max_ack_delay after the handshake is confirmed; and
        assert_eq!(
            rtt_estimator.smoothed_rtt,
            7 * Duration::from_millis(100) / 8 + Duration::from_millis(200 - 10) / 8
        );
        assert_eq!(rtt_estimator.first_rtt_sample(), Some(now));

        let prev_smoothed_rtt = rtt_estimator.smoothed_rtt;

        // Update when the handshake is not confirmed
        rtt_estimator.update_rtt(
            Duration::from_millis(50),
            Duration::from_millis(200),
            now,
            false,
            PacketNumberSpace::ApplicationData,
        );

        //= https://www.rfc-editor.org/rfc/rfc9002#section-5.3
        //= type=test
        //# To account for this, the endpoint SHOULD ignore
        //# max_ack_delay until the handshake is confirmed, as defined in
        //# Section 4.1.2 of [QUIC-TLS].

        //= https://www.rfc-editor.org/rfc/rfc9002#section-5.3
        //= type=test
        //# *  SHOULD ignore the peer's max_ack_delay until the handshake is
        //# confirmed;
        assert_eq!(
            rtt_estimator.smoothed_rtt,
            7 * prev_smoothed_rtt / 8 + Duration::from_millis(200 - 50) / 8
        );
    }

    /// Test several rounds of RTT updates
    #[test]
    fn update_rtt() {
        let mut rtt_estimator =
            RttEstimator::new_with_max_ack_delay(Duration::from_millis(10), DEFAULT_INITIAL_RTT);
        let now = NoopClock.get_time();
        let rtt_sample = Duration::from_millis(500);
        assert!(rtt_estimator.first_rtt_sample.is_none());
        rtt_estimator.update_rtt(
            Duration::from_millis(10),
            rtt_sample,
            now,
            true,
            PacketNumberSpace::ApplicationData,
        );

        //= https://www.rfc-editor.org/rfc/rfc9002#section-5.2
        //= type=test
        //# min_rtt MUST be set to the latest_rtt on the first RTT sample.
        assert_eq!(rtt_estimator.min_rtt, rtt_sample);
        assert_eq!(rtt_estimator.latest_rtt, rtt_sample);
        assert_eq!(rtt_estimator.smoothed_rtt, rtt_sample);
        assert_eq!(rtt_estimator.rttvar, rtt_sample / 2);
        assert_eq!(rtt_estimator.first_rtt_sample, Some(now));

        let prev_smoothed_rtt = rtt_estimator.smoothed_rtt;
        let rtt_sample = Duration::from_millis(800);
        let ack_delay = Duration::from_millis(10);

        rtt_estimator.update_rtt(
            ack_delay,
            rtt_sample,
            now + Duration::from_secs(1),
            true,
            PacketNumberSpace::ApplicationData,
        );

        let adjusted_rtt = rtt_sample - ack_delay;

        assert_eq!(rtt_estimator.min_rtt, prev_smoothed_rtt);
        assert_eq!(rtt_estimator.latest_rtt, rtt_sample);
        assert_eq!(
            rtt_estimator.smoothed_rtt,
            7 * prev_smoothed_rtt / 8 + adjusted_rtt / 8
        );
        assert_eq!(rtt_estimator.first_rtt_sample, Some(now));

        // This rtt_sample is a new minimum, so the ack_delay is not used for adjustment
        let prev_smoothed_rtt = rtt_estimator.smoothed_rtt;
        let rtt_sample = Duration::from_millis(200);
        let ack_delay = Duration::from_millis(10);

        rtt_estimator.update_rtt(
            ack_delay,
            rtt_sample,
            now + Duration::from_secs(2),
            true,
            PacketNumberSpace::ApplicationData,
        );

        //= https://www.rfc-editor.org/rfc/rfc9002#section-5.2
        //= type=test
        //# min_rtt MUST be set to the lesser of min_rtt and latest_rtt
        //# (Section 5.1) on all other samples.
        assert_eq!(rtt_estimator.min_rtt, rtt_sample);
        assert_eq!(rtt_estimator.latest_rtt, rtt_sample);
        assert_eq!(
            rtt_estimator.smoothed_rtt,
            7 * prev_smoothed_rtt / 8 + rtt_sample / 8
        );
        assert_eq!(rtt_estimator.first_rtt_sample, Some(now));
        assert_eq!(
            rtt_estimator.pto_period(INITIAL_PTO_BACKOFF, PacketNumberSpace::ApplicationData),
            Duration::from_micros(1620466)
        );
    }

    //= https://www.rfc-editor.org/rfc/rfc9002#section-5.3
    //= type=test
    //# *  MUST NOT subtract the acknowledgement delay from the RTT sample if
    //#    the resulting value is smaller than the min_rtt.
    #[test]
    fn must_not_subtract_acknowledgement_delay_if_result_smaller_than_min_rtt() {
        let mut rtt_estimator =
            RttEstimator::new_with_max_ack_delay(Duration::from_millis(200), DEFAULT_INITIAL_RTT);
        let now = NoopClock.get_time();

        rtt_estimator.min_rtt = Duration::from_millis(500);
        rtt_estimator.smoothed_rtt = Duration::from_millis(700);
        rtt_estimator.first_rtt_sample = Some(now);

        let rtt_sample = Duration::from_millis(600);
        let prev_smoothed_rtt = rtt_estimator.smoothed_rtt;

        rtt_estimator.update_rtt(
            Duration::from_millis(200),
            rtt_sample,
            now,
            true,
            PacketNumberSpace::ApplicationData,
        );

        assert_eq!(
            rtt_estimator.smoothed_rtt,
            7 * prev_smoothed_rtt / 8 + rtt_sample / 8
        );
    }

    //= https://www.rfc-editor.org/rfc/rfc9002#section-5.3
    //= type=test
    //# Therefore, prior to handshake
    //# confirmation, an endpoint MAY ignore RTT samples if adjusting the RTT
    //# sample for acknowledgement delay causes the sample to be less than
    //# the min_rtt.
    #[test]
    fn prior_to_handshake_ignore_if_less_than_min_rtt() {
        let mut rtt_estimator =
            RttEstimator::new_with_max_ack_delay(Duration::from_millis(200), DEFAULT_INITIAL_RTT);
        let now = NoopClock.get_time();
        let smoothed_rtt = Duration::from_millis(700);

        rtt_estimator.min_rtt = Duration::from_millis(500);
        rtt_estimator.smoothed_rtt = smoothed_rtt;
        rtt_estimator.first_rtt_sample = Some(now);

        let rtt_sample = Duration::from_millis(600);

        rtt_estimator.update_rtt(
            Duration::from_millis(200),
            rtt_sample,
            now,
            false,
            PacketNumberSpace::ApplicationData,
        );

        assert_eq!(rtt_estimator.smoothed_rtt, smoothed_rtt);
    }

    //= https://www.rfc-editor.org/rfc/rfc9002#section-5.3
    //= type=test
    //# *  MAY ignore the acknowledgment delay for Initial packets, since
    //     these acknowledgments are not delayed by the peer (Section 13.2.1
    //     of [QUIC-TRANSPORT]);
    #[test]
    fn initial_space() {
        let mut rtt_estimator =
            RttEstimator::new_with_max_ack_delay(Duration::from_millis(10), DEFAULT_INITIAL_RTT);
        let now = NoopClock.get_time();
        let rtt_sample = Duration::from_millis(500);
        rtt_estimator.update_rtt(
            Duration::from_millis(10),
            rtt_sample,
            now,
            true,
            PacketNumberSpace::Initial,
        );

        let prev_smoothed_rtt = rtt_estimator.smoothed_rtt;
        let rtt_sample = Duration::from_millis(1000);

        rtt_estimator.update_rtt(
            Duration::from_millis(100),
            rtt_sample,
            now,
            true,
            PacketNumberSpace::Initial,
        );

        assert_eq!(
            rtt_estimator.smoothed_rtt,
            7 * prev_smoothed_rtt / 8 + rtt_sample / 8
        );
    }

    //= https://www.rfc-editor.org/rfc/rfc9002#section-7.6.1
    //= type=test
    //# The persistent congestion duration is computed as follows:
    //#
    //# (smoothed_rtt + max(4*rttvar, kGranularity) + max_ack_delay) *
    //#   kPersistentCongestionThreshold
    #[test]
    fn persistent_congestion_duration() {
        let max_ack_delay = Duration::from_millis(10);
        let mut rtt_estimator =
            RttEstimator::new_with_max_ack_delay(max_ack_delay, DEFAULT_INITIAL_RTT);

        rtt_estimator.smoothed_rtt = Duration::from_millis(100);
        rtt_estimator.rttvar = Duration::from_millis(50);

        // persistent congestion period =
        // (smoothed_rtt + max(4*rttvar, kGranularity) + max_ack_delay) * kPersistentCongestionThreshold
        // = (100 + max(4*50, 1) + 10) * 3 = 930
        assert_eq!(
            Duration::from_millis(930),
            rtt_estimator.persistent_congestion_threshold()
        );

        rtt_estimator.rttvar = Duration::from_millis(0);

        //= https://www.rfc-editor.org/rfc/rfc9002#section-7.6.1
        //= type=test
        //# The RECOMMENDED value for kPersistentCongestionThreshold is 3, which
        //# results in behavior that is approximately equivalent to a TCP sender
        //# declaring an RTO after two TLPs.

        // persistent congestion period =
        // (smoothed_rtt + max(4*rttvar, kGranularity) + max_ack_delay) * kPersistentCongestionThreshold
        // = (100 + max(0, 1) + 10) * 3 = 333
        assert_eq!(
            Duration::from_millis(333),
            rtt_estimator.persistent_congestion_threshold()
        );
    }

    #[test]
    fn set_min_rtt_to_latest_sample_after_persistent_congestion() {
        let mut rtt_estimator =
            RttEstimator::new_with_max_ack_delay(Duration::from_millis(10), DEFAULT_INITIAL_RTT);
        let now = NoopClock.get_time();
        let mut rtt_sample = Duration::from_millis(500);
        rtt_estimator.update_rtt(
            Duration::from_millis(10),
            rtt_sample,
            now,
            true,
            PacketNumberSpace::Initial,
        );

        assert_eq!(rtt_estimator.min_rtt(), rtt_sample);

        rtt_sample = Duration::from_millis(200);

        rtt_estimator.on_persistent_congestion();

        rtt_estimator.update_rtt(
            Duration::from_millis(10),
            rtt_sample,
            now,
            true,
            PacketNumberSpace::Initial,
        );

        //= https://www.rfc-editor.org/rfc/rfc9002#section-5.2
        //= type=test
        //# Endpoints SHOULD set the min_rtt to the newest RTT sample after
        //# persistent congestion is established.
        assert_eq!(rtt_estimator.min_rtt(), rtt_sample);
        assert_eq!(rtt_estimator.smoothed_rtt(), rtt_sample);
    }

    //= https://www.rfc-editor.org/rfc/rfc9002#section-6.2.1
    //= type=test
    //# The PTO period MUST be at least kGranularity, to avoid the timer
    //# expiring immediately.
    #[test]
    fn pto_must_be_at_least_k_granularity() {
        let space = PacketNumberSpace::Handshake;
        let now = NoopClock.get_time();
        let mut rtt_estimator = RttEstimator::new(DEFAULT_INITIAL_RTT);

        // Update RTT with the smallest possible sample
        rtt_estimator.update_rtt(
            Duration::from_millis(0),
            Duration::from_nanos(1),
            now,
            true,
            space,
        );

        let pto_period = rtt_estimator.pto_period(INITIAL_PTO_BACKOFF, space);
        assert!(pto_period >= K_GRANULARITY);

        // pto_period should have microsecond precision
        assert_eq!(pto_period, Duration::from_micros(1001))
    }

    #[test]
    #[cfg_attr(kani, kani::proof, kani::unwind(3), kani::solver(cadical))]
    #[cfg_attr(miri, ignore)] // This test is too expensive for miri to complete in a reasonable amount of time
    fn weighted_average_test() {
        bolero::check!()
            .with_type::<(u32, u32)>()
            .for_each(|(a, b)| {
                let a = Duration::from_nanos(*a as _);
                let b = Duration::from_nanos(*b as _);

                let weight = 8;

                // perform the unoptimized version
                let expected = ((weight - 1) * a) / weight + b / weight;
                let actual = super::weighted_average(a, b, weight as _);

                // assert that the unoptimized result matches the optimized to the nearest `weight` nanos
                assert!(
                    expected.as_nanos().abs_diff(actual.as_nanos()) as u32 <= weight,
                    "expected: {expected:?}; actual: {actual:?}"
                );
            })
    }

    //= https://www.rfc-editor.org/rfc/rfc9002#section-6.1.2
    //= type=test
    //# The RECOMMENDED time threshold (kTimeThreshold), expressed as an
    //# RTT multiplier, is 9/8.
    #[test]
    fn time_threshold_multiplier_equals_nine_eighths() {
        let mut rtt_estimator =
            RttEstimator::new_with_max_ack_delay(Duration::from_millis(10), DEFAULT_INITIAL_RTT);
        rtt_estimator.update_rtt(
            Duration::from_millis(10),
            Duration::from_secs(1),
            NoopClock.get_time(),
            true,
            PacketNumberSpace::Initial,
        );
        assert_eq!(
            Duration::from_millis(1125), // 9/8 seconds = 1.125 seconds
            rtt_estimator.loss_time_threshold()
        );
    }

    #[test]
    fn timer_granularity() {
        //= https://www.rfc-editor.org/rfc/rfc9002#section-6.1.2
        //= type=test
        //# The RECOMMENDED value of the
        //# timer granularity (kGranularity) is 1 millisecond.
        assert_eq!(Duration::from_millis(1), K_GRANULARITY);

        let mut rtt_estimator = RttEstimator::default();
        rtt_estimator.update_rtt(
            Duration::from_millis(0),
            Duration::from_nanos(1),
            NoopClock.get_time(),
            true,
            PacketNumberSpace::Initial,
        );

        //= https://www.rfc-editor.org/rfc/rfc9002#section-6.1.2
        //= type=test
        //# To avoid declaring
        //# packets as lost too early, this time threshold MUST be set to at
        //# least the local timer granularity, as indicated by the kGranularity
        //# constant.
        assert!(rtt_estimator.loss_time_threshold() >= K_GRANULARITY);
    }

    #[test]
    fn calculate_jitter_amount_zero_percentage() {
        let mut rng = random::testing::Generator::default();
        let base_pto_micros = 1000000; // 1 second

        let jitter =
            calculate_jitter_amount(base_pto_micros, DEFAULT_PTO_JITTER_PERCENTAGE, &mut rng);
        assert_eq!(jitter, 0);
    }

    #[test]
    fn calculate_jitter_amount_within_range() {
        let mut rng = random::testing::Generator::default();
        let base_pto_micros = 1000000; // 1 second
        let jitter_percentage = 25;

        // Test multiple iterations to verify range
        for _ in 0..100 {
            let jitter = calculate_jitter_amount(base_pto_micros, jitter_percentage, &mut rng);
            let max_jitter = (base_pto_micros * jitter_percentage as u64) / 100;

            // Jitter should be within ±25% range
            assert!(jitter >= -(max_jitter as i64));
            assert!(jitter <= max_jitter as i64);
        }
    }

    #[test]
    fn calculate_jitter_amount_edge_cases() {
        let mut rng = random::testing::Generator::default();

        // Test with minimum base PTO
        let min_base_pto = 1; // 1 microsecond
        let jitter = calculate_jitter_amount(min_base_pto, MAX_PTO_JITTER_PERCENTAGE, &mut rng);
        let max_jitter = (min_base_pto * MAX_PTO_JITTER_PERCENTAGE as u64) / 100;
        assert!(jitter >= -(max_jitter as i64));
        assert!(jitter <= max_jitter as i64);

        // Test with maximum jitter percentage
        let base_pto_micros = 1000000;
        let jitter = calculate_jitter_amount(base_pto_micros, MAX_PTO_JITTER_PERCENTAGE, &mut rng);
        let max_jitter = (base_pto_micros * MAX_PTO_JITTER_PERCENTAGE as u64) / 100;
        assert!(jitter >= -(max_jitter as i64));
        assert!(jitter <= max_jitter as i64);
    }

    #[test]
    fn pto_period_with_jitter_zero_jitter_matches_original() {
        let rtt_estimator = RttEstimator::new(DEFAULT_INITIAL_RTT);
        let mut rng = random::testing::Generator::default();
        let space = PacketNumberSpace::ApplicationData;
        let pto_backoff = 1;

        // Zero jitter should produce identical results to original method
        let original_pto = rtt_estimator.pto_period(pto_backoff, space);
        let jittered_pto = rtt_estimator.pto_period_with_jitter(pto_backoff, space, 0, &mut rng);

        assert_eq!(original_pto, jittered_pto);
    }

    #[test]
    fn pto_period_with_jitter_respects_k_granularity() {
        let rtt_estimator = RttEstimator::new(MIN_RTT);
        let mut rng = random::testing::Generator::default();
        let space = PacketNumberSpace::Initial;
        let pto_backoff = 1;

        // Even with maximum jitter, PTO should never be less than kGranularity
        for _ in 0..100 {
            let jittered_pto = rtt_estimator.pto_period_with_jitter(
                pto_backoff,
                space,
                MAX_PTO_JITTER_PERCENTAGE,
                &mut rng,
            );
            assert!(jittered_pto >= K_GRANULARITY);
        }
    }

    #[test]
    fn pto_period_with_jitter_produces_variation() {
        let rtt_estimator = RttEstimator::new(Duration::from_millis(100));
        let mut rng = random::testing::Generator::default();
        let space = PacketNumberSpace::ApplicationData;
        let pto_backoff = 1;
        let jitter_percentage = 25;

        let mut pto_values = std::collections::HashSet::new();

        // Generate multiple PTO values and verify we get variation
        for _ in 0..50 {
            let jittered_pto = rtt_estimator.pto_period_with_jitter(
                pto_backoff,
                space,
                jitter_percentage,
                &mut rng,
            );
            pto_values.insert(jittered_pto.as_micros());
        }

        // Should have multiple different values (at least 5 out of 50)
        assert!(
            pto_values.len() >= 5,
            "Expected variation in PTO values, got {} unique values",
            pto_values.len()
        );
    }

    #[test]
    fn pto_period_with_jitter_range_validation() {
        let rtt_estimator = RttEstimator::new(Duration::from_millis(100));
        let mut rng = random::testing::Generator::default();
        let space = PacketNumberSpace::ApplicationData;
        let pto_backoff = 1;
        let jitter_percentage = 30;

        let base_pto = rtt_estimator.pto_period(pto_backoff, space);
        let base_micros = base_pto.as_micros() as u64;
        let min_expected = (base_micros * 70) / 100; // -30%
        let max_expected = (base_micros * 130) / 100; // +30%

        // Test multiple jittered values are within expected range
        for _ in 0..100 {
            let jittered_pto = rtt_estimator.pto_period_with_jitter(
                pto_backoff,
                space,
                jitter_percentage,
                &mut rng,
            );
            let jittered_micros = jittered_pto.as_micros() as u64;

            // Should be within ±30% range, but never less than kGranularity
            let effective_min = min_expected.max(K_GRANULARITY.as_micros() as u64);
            assert!(
                jittered_micros >= effective_min,
                "PTO {} is below minimum {}",
                jittered_micros,
                effective_min
            );
            assert!(
                jittered_micros <= max_expected,
                "PTO {} is above maximum {}",
                jittered_micros,
                max_expected
            );
        }
    }

    #[test]
    fn pto_period_with_jitter_extreme_backoff() {
        let rtt_estimator = RttEstimator::new(Duration::from_millis(100));
        let mut rng = random::testing::Generator::default();
        let space = PacketNumberSpace::ApplicationData;
        let extreme_backoff = 64; // Very high backoff
        let jitter_percentage = 25;

        // Test that jitter works correctly even with extreme backoff values
        let jittered_pto = rtt_estimator.pto_period_with_jitter(
            extreme_backoff,
            space,
            jitter_percentage,
            &mut rng,
        );

        // Should still be valid and respect minimum bounds
        assert!(jittered_pto >= K_GRANULARITY);
        // Should be reasonable (less than 1 minute for this test)
        assert!(jittered_pto <= Duration::from_secs(60));
    }

    #[test]
    fn pto_period_with_jitter_maintains_rfc_compliance() {
        let mut rtt_estimator = RttEstimator::new(Duration::from_millis(100));
        rtt_estimator.on_max_ack_delay(Duration::from_millis(25).try_into().unwrap());
        let mut rng = random::testing::Generator::default();
        let jitter_percentage = 20;

        // Test that jittered PTO maintains RFC 9002 compliance for different spaces
        for space in [
            PacketNumberSpace::Initial,
            PacketNumberSpace::Handshake,
            PacketNumberSpace::ApplicationData,
        ] {
            for pto_backoff in [1, 2, 4, 8] {
                let jittered_pto = rtt_estimator.pto_period_with_jitter(
                    pto_backoff,
                    space,
                    jitter_percentage,
                    &mut rng,
                );

                // Must respect minimum PTO period
                assert!(jittered_pto >= K_GRANULARITY);

                // Should be reasonable for the given parameters
                let base_pto = rtt_estimator.pto_period(pto_backoff, space);
                let max_expected = base_pto + base_pto * jitter_percentage as u32 / 100;
                assert!(jittered_pto <= max_expected + Duration::from_micros(1));
                // Allow for rounding
            }
        }
    }
}
