"""Per-property MANIFEST metadata (owned by the integrator). A property is claimed when it has an entry here
and at least one props/parts/Cxx_*.py part."""

META = {
    "C05": {
        "category": "proof",
        "text": ("Lean 4 theorems over executable models of the codecs: for every value the table-driven encoder emits exactly the RFC 9000 "
                 "shortest form, announces the size it writes, and decodes back (round-trip with arbitrary trailing bytes); for every byte "
                 "string the decoder equals an independently written RFC parser, is total and consumes 1/2/4/8 bytes. The model is tied to "
                 "/repo on every run: table rows, masks and dispatch are re-extracted from the Rust source and proved equal to the pinned "
                 "model (bridge lemmas), and the Lean driver is run against the real s2n-codec/s2n-quic-core code on generated inputs."),
        "note": ("Trusted: Lean kernel (axioms propext, Classical.choice, Quot.sound only), tools/extract.py, the vh-core harness and python "
                 "oracles/generators. Modelled not verified: unsafe pointer writes (compared byte-for-byte by the differential run), zero-copy lifetimes."),
        "technique": "Lean 4 theorem proving (round-trip/agreement theorems) + regenerated-model bridge lemmas + differential correspondence",
    },
}
