"""Per-property MANIFEST metadata (owned by the integrator). A property is claimed when it has an entry here
and at least one props/parts/Cxx_*.py part."""

META = {
    "C05": {
        "category": "proof",
        "text": ("Lean 4 theorems over executable models of the codecs: for every value the table-driven encoder emits exactly the RFC 9000 "
                 "shortest form, announces the size it writes, and decodes back (round-trip with arbitrary trailing bytes); for every byte "
                 "string the decoder equals an independently written RFC parser, is total and consumes 1/2/4/8 bytes. The model is tied to "
                 "/repo on every run: table rows, masks and dispatch are re-extracted from the Rust source and proved equal to the pinned "
                 "model (bridge lemmas), and the Lean driver is run against the real s2n-codec/s2n-quic-core code on generated inputs."),
        "note": ("Trusted: Lean kernel (axioms propext, Classical.choice, Quot.sound only), tools/extract.py, the vh-core harness and python "
                 "oracles/generators. Modelled not verified: unsafe pointer writes (compared byte-for-byte by the differential run), zero-copy lifetimes."),
        "technique": "Lean 4 theorem proving (round-trip/agreement theorems) + regenerated-model bridge lemmas + differential correspondence",
    },

    "C01": {
        "category": "proof",
        "text": ("Composition theorem in Lean: for every list of consistent frames (any subset, duplicates, order, overlap) and any read "
                 "pattern, the reassembly model yields a prefix of the sender's byte string and exactly that string at clean end of stream. "
                 "The assumptions of the composition (frames an endpoint emits are consistent with what its application wrote; only genuine "
                 "packets are processed, each once; the real Reassembler behaves like the model) are tied to /repo by differential runs of the "
                 "model against the real Reassembler and by real end-to-end client/server runs under drop/duplicate/reorder/corrupt/truncate/"
                 "MTU-drop/inject/replay faults with keyed, position-dependent 64-bit payloads, small windows, both congestion controllers."),
        "note": "Trusted: Lean kernel (standard axioms only) for the theorems; the vh-e2e harness, trace format, python RFC frame/TLS parsers and oracles for the tie. The end-to-end exploration is sampling of real client+server runs on the repo's deterministic IO provider (it validates the model's assumptions against the implementation); TLS, AEAD and the OS are not modelled.",
        "technique": "Lean 4 theorem proving (reassembly prefix/completeness by induction over arbitrary frame lists) + differential and end-to-end trace correspondence",
    },
    "C02": {
        "category": "proof",
        "text": ("PARTIAL. Safety invariants of the timer/retransmission state machines are Lean theorems (PTO armed whenever ack-eliciting "
                 "data is in flight, PTO backoff, idle deadline bound); the liveness clause cannot be proved for the real executor and is "
                 "validated by end-to-end runs: finite fault prefixes including total blackholes at every phase followed by recovery must "
                 "complete, permanent blackholes must be reported by both endpoints no later than the effective idle deadline "
                 "(restart time + max(idle, 3 x current PTO)), and the simulator's stall detector must never fire."),
        "note": "Trusted: Lean kernel (standard axioms only) for the theorems; the vh-e2e harness, trace format, python RFC frame/TLS parsers and oracles for the tie. The end-to-end exploration is sampling of real client+server runs on the repo's deterministic IO provider (it validates the model's assumptions against the implementation); TLS, AEAD and the OS are not modelled. The liveness half is exploration, not proof; real timers, tokio and OS wake-ups are not modelled.",
        "technique": "Lean 4 invariants over timer state machines (safety) + end-to-end fault-prefix exploration with an idle-deadline oracle (liveness, partial)",
    },
    "C03": {
        "category": "proof",
        "text": ("Lean theorems over the send-side flow-control model (credit conservation, every emitted frame within the stream and "
                 "connection limits, RESET_STREAM final size within limits) tied to /repo by end-to-end traces: every STREAM/RESET_STREAM "
                 "frame an endpoint emits (packet interceptor, cleartext) is checked against the limits the same endpoint actually received "
                 "(peer transport parameters parsed independently from the TLS messages, MAX_DATA / MAX_STREAM_DATA / MAX_STREAMS frames), "
                 "with tiny windows, all blocking kinds, resets after queued data, loss of MAX_* frames."),
        "note": "Trusted: Lean kernel (standard axioms only) for the theorems; the vh-e2e harness, trace format, python RFC frame/TLS parsers and oracles for the tie. The end-to-end exploration is sampling of real client+server runs on the repo's deterministic IO provider (it validates the model's assumptions against the implementation); TLS, AEAD and the OS are not modelled.",
        "technique": "Lean 4 invariant proofs over the flow-control model + end-to-end frame-vs-credit trace oracle",
    },
    "C06": {
        "category": "proof",
        "text": ("PARTIAL (cryptography assumed ideal). Lean theorems: the duplicate window accepts each packet number at most once for every "
                 "history (window_at_most_once) and a forged packet changes no modelled state under the ideal-AEAD assumption. Tie: end-to-end "
                 "runs with heavy injection of forged, bit-flipped, truncated, spliced and replayed datagrams: every payload an endpoint "
                 "processes equals a payload its peer sealed for that space/number, each (connection, space, number) is processed at most "
                 "once, connections survive and data stays intact."),
        "note": "Trusted: Lean kernel (standard axioms only) for the theorems; the vh-e2e harness, trace format, python RFC frame/TLS parsers and oracles for the tie. The end-to-end exploration is sampling of real client+server runs on the repo's deterministic IO provider (it validates the model's assumptions against the implementation); TLS, AEAD and the OS are not modelled. AEAD/HP primitives are an assumption (ideal AEAD), exercised but not verified.",
        "technique": "Lean 4 theorems (duplicate window refinement, at-most-once) + end-to-end forgery/replay trace oracle",
    },
    "C08": {
        "category": "proof",
        "text": ("Lean theorems: packet-number truncation/expansion round-trips for all numbers below 2^62 and every admissible largest-acked "
                 "(per window width), ACK range set never contains a number that was not inserted (ackranges_sound) and evicts only lowest "
                 "ranges. Tie: differential runs against the real PacketNumber / ack::Ranges code and end-to-end traces in which every ACK "
                 "frame an endpoint sends is checked against the packets it really processed, packet numbers strictly increase, and "
                 "receiver-only endpoints acknowledge within max_ack_delay."),
        "note": "Trusted: Lean kernel (standard axioms only) for the theorems; the vh-e2e harness, trace format, python RFC frame/TLS parsers and oracles for the tie. The end-to-end exploration is sampling of real client+server runs on the repo's deterministic IO provider (it validates the model's assumptions against the implementation); TLS, AEAD and the OS are not modelled. Promptness is checked on receiver-only endpoints (see known findings for paced / skipped ACKs).",
        "technique": "Lean 4 theorems (truncate/expand per window, ACK-range soundness) + differential correspondence + end-to-end ACK-soundness/promptness trace oracle",
    },
    "C12": {
        "category": "proof",
        "text": ("Lean theorems over the data-sender model (retransmitted bytes identical, nothing beyond the final size, final size stable) "
                 "tied to /repo by end-to-end traces: all STREAM/RESET_STREAM/STREAM_DATA_BLOCKED frames an endpoint emits are reassembled "
                 "per stream across retransmissions and compared byte-for-byte with the keyed payload the application wrote; no data "
                 "beyond or change of the final size; nothing after RESET_STREAM; after CONNECTION_CLOSE only close packets and only in "
                 "response to incoming packets."),
        "note": "Trusted: Lean kernel (standard axioms only) for the theorems; the vh-e2e harness, trace format, python RFC frame/TLS parsers and oracles for the tie. The end-to-end exploration is sampling of real client+server runs on the repo's deterministic IO provider (it validates the model's assumptions against the implementation); TLS, AEAD and the OS are not modelled.",
        "technique": "Lean 4 invariant proofs over the stream-sender model + end-to-end per-stream frame-consistency trace oracle",
    },
}
