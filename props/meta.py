"""Per-property MANIFEST metadata (owned by the integrator). A property is claimed when it has an entry here
and at least one props/parts/Cxx_*.py part."""

META = {
    "C05": {
        "category": "proof",
        "text": ("Lean 4 theorems over executable models of the codecs: for every value the table-driven encoder emits exactly the RFC 9000 "
                 "shortest form, announces the size it writes, and decodes back (round-trip with arbitrary trailing bytes); for every byte "
                 "string the decoder equals an independently written RFC parser, is total and consumes 1/2/4/8 bytes. The model is tied to "
                 "/repo on every run: table rows, masks and dispatch are re-extracted from the Rust source and proved equal to the pinned "
                 "model (bridge lemmas), and the Lean driver is run against the real s2n-codec/s2n-quic-core code on generated inputs. "
                 "Packet headers (long/short/Retry/Version Negotiation, C05PacketHeader): the model of ProtectedPacket::decode is proved total, "
                 "equal to an RFC 9000 section 17 reference parser except at two exhibited points (known findings C05-PH1/PH2: Initial "
                 "connection IDs > 20 bytes accepted by the decoder and dropped later by the endpoint; Version Negotiation with IDs > 20 "
                 "bytes rejected), and the encoders round-trip with the announced length."),
        "note": ("Trusted: Lean kernel (axioms propext, Classical.choice, Quot.sound only), tools/extract.py, the vh-core harness and python "
                 "oracles/generators. Modelled not verified: unsafe pointer writes (compared byte-for-byte by the differential run), zero-copy lifetimes."),
        "technique": "Lean 4 theorem proving (round-trip/agreement theorems) + regenerated-model bridge lemmas + differential correspondence",
    },

    "C01": {
        "category": "proof",
        "text": ("Composition theorem in Lean: for every list of consistent frames (any subset, duplicates, order, overlap) and any read "
                 "pattern, the reassembly model yields a prefix of the sender's byte string and exactly that string at clean end of stream. "
                 "The assumptions of the composition (frames an endpoint emits are consistent with what its application wrote; only genuine "
                 "packets are processed, each once; the real Reassembler behaves like the model) are tied to /repo by differential runs of the "
                 "model against the real Reassembler and by real end-to-end client/server runs under drop/duplicate/reorder/corrupt/truncate/"
                 "MTU-drop/inject/replay faults with keyed, position-dependent 64-bit payloads, small windows, both congestion controllers."),
        "note": "Trusted: Lean kernel (standard axioms only) for the theorems; the vh-e2e harness, trace format, python RFC frame/TLS parsers and oracles for the tie. The end-to-end exploration is sampling of real client+server runs on the repo's deterministic IO provider (it validates the model's assumptions against the implementation); TLS, AEAD and the OS are not modelled.",
        "technique": "Lean 4 theorem proving (reassembly prefix/completeness by induction over arbitrary frame lists) + differential and end-to-end trace correspondence",
    },
    "C02": {
        "category": "proof",
        "text": ("PARTIAL. Safety invariants of the timer/retransmission state machines are Lean theorems (PTO armed whenever ack-eliciting "
                 "data is in flight, PTO backoff, idle deadline bound), as are the waker invariants: no stream reader/writer is parked without "
                 "its blocking condition holding, and for the read waiter under ANY low watermark / request size a stored waker's watermark is "
                 "never already met and a parked reader never holds half the window, and a writer parked by reset+flush is released exactly by "
                 "the reset acknowledgement or the connection end (C02RxWake, C02ResetFlush; the watermark expressions of on_data and "
                 "poll_request are translated from /repo's text on every run and proved equal to the model's, a broken bridge triggers a search "
                 "of the model twin for a lost wake-up history); the liveness clause cannot be proved for the real executor and is "
                 "validated by end-to-end runs: finite fault prefixes including total blackholes at every phase followed by recovery must "
                 "complete, permanent blackholes must be reported by both endpoints no later than the effective idle deadline "
                 "(restart time + max(idle, 3 x current PTO)), and the simulator's stall detector must never fire."),
        "note": "Trusted: Lean kernel (standard axioms only) for the theorems; the vh-e2e harness, trace format, python RFC frame/TLS parsers and oracles for the tie. The end-to-end exploration is sampling of real client+server runs on the repo's deterministic IO provider (it validates the model's assumptions against the implementation); TLS, AEAD and the OS are not modelled. The liveness half is exploration, not proof; real timers, tokio and OS wake-ups are not modelled.",
        "technique": "Lean 4 invariants over timer state machines (safety) + end-to-end fault-prefix exploration with an idle-deadline oracle (liveness, partial)",
    },
    "C03": {
        "category": "proof",
        "text": ("Lean theorems over the send-side flow-control model (credit conservation, every emitted frame within the stream and "
                 "connection limits, RESET_STREAM final size within limits) tied to /repo by end-to-end traces: every STREAM/RESET_STREAM "
                 "frame an endpoint emits (packet interceptor, cleartext) is checked against the limits the same endpoint actually received "
                 "(peer transport parameters parsed independently from the TLS messages, MAX_DATA / MAX_STREAM_DATA / MAX_STREAMS frames), "
                 "with tiny windows, all blocking kinds, resets after queued data, loss of MAX_* frames."),
        "note": "Trusted: Lean kernel (standard axioms only) for the theorems; the vh-e2e harness, trace format, python RFC frame/TLS parsers and oracles for the tie. The end-to-end exploration is sampling of real client+server runs on the repo's deterministic IO provider (it validates the model's assumptions against the implementation); TLS, AEAD and the OS are not modelled.",
        "technique": "Lean 4 invariant proofs over the flow-control model + end-to-end frame-vs-credit trace oracle",
    },
    "C06": {
        "category": "proof",
        "text": ("PARTIAL (cryptography assumed ideal). Lean theorems: the duplicate window accepts each packet number at most once for every "
                 "history (window_at_most_once) and a forged packet changes no modelled state under the ideal-AEAD assumption. Tie: end-to-end "
                 "runs with heavy injection of forged, bit-flipped, truncated, spliced and replayed datagrams: every payload an endpoint "
                 "processes equals a payload its peer sealed for that space/number, each (connection, space, number) is processed at most "
                 "once, connections survive and data stays intact."),
        "note": "Trusted: Lean kernel (standard axioms only) for the theorems; the vh-e2e harness, trace format, python RFC frame/TLS parsers and oracles for the tie. The end-to-end exploration is sampling of real client+server runs on the repo's deterministic IO provider (it validates the model's assumptions against the implementation); TLS, AEAD and the OS are not modelled. AEAD/HP primitives are an assumption (ideal AEAD), exercised but not verified.",
        "technique": "Lean 4 theorems (duplicate window refinement, at-most-once) + end-to-end forgery/replay trace oracle",
    },
    "C08": {
        "category": "proof",
        "text": ("Lean theorems: packet-number truncation/expansion round-trips for all numbers below 2^62 and every admissible largest-acked "
                 "(per window width), ACK range set never contains a number that was not inserted (ackranges_sound) and evicts only lowest "
                 "ranges. Tie: differential runs against the real PacketNumber / ack::Ranges code and end-to-end traces in which every ACK "
                 "frame an endpoint sends is checked against the packets it really processed, packet numbers strictly increase, and "
                 "receiver-only endpoints acknowledge within max_ack_delay."),
        "note": "Trusted: Lean kernel (standard axioms only) for the theorems; the vh-e2e harness, trace format, python RFC frame/TLS parsers and oracles for the tie. The end-to-end exploration is sampling of real client+server runs on the repo's deterministic IO provider (it validates the model's assumptions against the implementation); TLS, AEAD and the OS are not modelled. Promptness is checked on receiver-only endpoints (see known findings for paced / skipped ACKs).",
        "technique": "Lean 4 theorems (truncate/expand per window, ACK-range soundness) + differential correspondence + end-to-end ACK-soundness/promptness trace oracle",
    },
    "C12": {
        "category": "proof",
        "text": ("Lean theorems over the data-sender model (retransmitted bytes identical, nothing beyond the final size, final size stable) "
                 "tied to /repo by end-to-end traces: all STREAM/RESET_STREAM/STREAM_DATA_BLOCKED frames an endpoint emits are reassembled "
                 "per stream across retransmissions and compared byte-for-byte with the keyed payload the application wrote; no data "
                 "beyond or change of the final size; nothing after RESET_STREAM; after CONNECTION_CLOSE only close packets and only in "
                 "response to incoming packets."),
        "note": "Trusted: Lean kernel (standard axioms only) for the theorems; the vh-e2e harness, trace format, python RFC frame/TLS parsers and oracles for the tie. The end-to-end exploration is sampling of real client+server runs on the repo's deterministic IO provider (it validates the model's assumptions against the implementation); TLS, AEAD and the OS are not modelled.",
        "technique": "Lean 4 invariant proofs over the stream-sender model + end-to-end per-stream frame-consistency trace oracle",
    },

    "C09": {
        "category": "proof",
        "text": ("Lean theorems over models of loss::detect, RttEstimator, Pto and the recovery manager's bookkeeping (a packet is reported lost "
                 "only under the RFC 9002 6.1 conditions up to the 1 ms timer granularity, a PTO expiry never removes sent packets, every sent "
                 "packet is resolved exactly once, bytes in flight equals the sum of unresolved congestion-controlled packets, RTT within the "
                 "sample range, PTO >= granularity and doubling). Tie: constants/operators re-extracted from the Rust source with bridge lemmas, "
                 "differential runs of the Lean driver against the real loss::detect / RttEstimator / Pto, and real end-to-end traces in which "
                 "every packet_lost event is justified from the packet_sent / ack_range_received / recovery_metrics history and bytes_in_flight "
                 "is reconciled with the unresolved 1-RTT packets after every event."),
        "note": "Trusted: Lean kernel (standard axioms only) for the theorems; the harnesses, trace format, python RFC parsers and oracles for the tie. The strict 9/8*RTT reading is false of the code by up to 1 ms (known finding F2, proved as a counterexample); ECN validation, MTU probing and pacing are not modelled.",
        "technique": "Lean 4 theorem proving over recovery models + regenerated-constant bridges + differential and end-to-end event-trace correspondence",
    },
    "C10": {
        "category": "proof",
        "text": ("PARTIAL. CUBIC uses f32 arithmetic, BBR a bandwidth model: the Lean models are skeletons (integer/enum state, every float "
                 "expression an oracle value constrained only by the guards the code applies); theorems hold for all oracle values: window never "
                 "below the controller minimum, loss never increases the window, one reduction per recovery period, no growth while "
                 "application-limited, persistent congestion collapses to the minimum, in-flight counter exact. Tie: constants re-extracted with "
                 "bridge lemmas, the real CubicCongestionController / BbrCongestionController driven through the CongestionController trait with "
                 "the bounds checked after every event, and recovery_metrics of live connections."),
        "note": "Trusted: Lean kernel (standard axioms only) for the theorems; the harnesses, trace format, python RFC parsers and oracles for the tie. Floating-point values, BBR's estimator/probe state machines and pacing are not modelled (skeleton only).",
        "technique": "Lean 4 theorems over controller skeletons (float expressions as constrained oracle parameters) + per-event bound checking on the real controllers + end-to-end metrics oracle",
    },
    "C19": {
        "category": "proof",
        "text": ("Lean theorems by induction over arbitrary sequences: the dc replay window accepts a key id iff it is not the reserved maximum, "
                 "was not accepted before and is above or less than 896 below the highest accepted id (replay_exact), never twice "
                 "(replay_at_most_once), and refines a set+max specification; the sender's atomic counter issues pairwise distinct, strictly "
                 "increasing ids under every interleaving of next/fetch_max steps and never wraps. Tie: window size, sentinel and every "
                 "comparison operator re-extracted from the Rust source with bridge lemmas; the Lean driver is run against the real "
                 "receiver::State / sender (through the secret map's production entry points) including full bitset snapshots, window-edge "
                 "histories, exhaustive short sequences and multi-threaded stress with schedule-independent summaries."),
        "note": "Trusted: Lean kernel (standard axioms only) for the theorems; the harnesses, trace format, python RFC parsers and oracles for the tie. Assumed: Mutex mutual exclusion, bitvec shift/fill semantics, atomicity of fetch_update/fetch_max.",
        "technique": "Lean 4 refinement/induction proofs over the replay-window and key-id models + regenerated-constant bridges + differential (incl. exhaustive and threaded) correspondence",
    },

    "C16": {
        "category": "proof",
        "text": ("Lean refinement theorems by induction over arbitrary operation histories: the duplicate window's outputs equal those of a plain "
                 "reference set (Duplicate iff already accepted and within 128 of the right edge, TooOld iff at least 129 below, each number accepted "
                 "at most once, never a false duplicate); the packet-number ring-buffer map refines an association list (get/insert/remove/"
                 "remove_range/iter/resize) under exactly the precondition the code debug-asserts; interval set and ACK-range set are well formed "
                 "and contain exactly the inserted-minus-removed elements, the bounded ACK-range set dropping only lowest ranges; the reassembly "
                 "reference buffer hands out exactly the contiguous bytes written, once and in order, and rejects exactly the writes that "
                 "contradict a final size or exceed the maximum offset. Tie: constants re-extracted with bridge lemmas and the Lean driver run "
                 "against the real structures with full-content comparison after every operation, edge-concentrated generators and exhaustive "
                 "enumeration of all short operation sequences."),
        "note": ("Trusted: Lean kernel (standard axioms only), tools/extract.py, the vh-core harness, generators and python reference oracles. "
                 "Not modelled: BytesMut pointer identity / allocation growth, allocation failure in Map::resize, leaked RemoveIter."),
        "technique": "Lean 4 refinement proofs (abs∘step = spec step / simulation relations) by induction over operation lists + differential correspondence incl. exhaustive short sequences",
    },

    "C14": {
        "category": "proof",
        "text": ("Lean theorems: the decode_parameters loop of the model accepts a parameter block exactly when an independently written RFC 9000 "
                 "18.2 table does (tp_accept_iff_rfc: full iff for RFC-conformant rows; for the rows tied to the code the iff holds on every block "
                 "outside three proved counterexample classes that are recorded as known findings), unknown parameters ignored, duplicates and "
                 "server-only parameters from clients rejected, defaults, values and derived limits exact, encode/decode round trip, and the "
                 "connection-ID authentication matrix equals RFC 9000 7.3. Tie: every parameter's id, default, validator operator and constant "
                 "is re-extracted from the Rust source AND the RFC table is re-extracted from the offline RFC text, both with bridge lemmas; the "
                 "Lean driver is run against the real Client/ServerTransportParameters decoders on blocks with every parameter at, inside and "
                 "outside each bound, all small subsets/orders/duplications, unknown ids, both roles. The connection-ID authentication "
                 "(session_context.rs, private to the crate) is tied end to end: real client/server handshakes in which one endpoint's DECLARED "
                 "block is rewritten inside the TLS provider (88 mutation cases with and without Retry); the handshake facts and the blocks are read "
                 "from the wire, the Lean model (tp-auth driver; theorems tp_block_auth_iff(_rfc), tp_block_reject_code) must take the validator's "
                 "decision, and RFC 9000 7.3 is the verdict."),
        "note": ("Trusted: Lean kernel (standard axioms), tools/extract.py, vh-core / vh-e2e harnesses, python RFC oracle. The end-to-end application of the "
                 "limits is observed through C03/C04 traces (declared parameters are parsed from the TLS messages); TLS extension carriage is not modelled."),
        "technique": "Lean 4 theorem proving (decoder ⇔ RFC table) + regenerated-table bridges (code and RFC text) + differential correspondence",
    },
    "C15": {
        "category": "proof",
        "text": ("Lean theorems over a line-by-line model of KeySet (keys = generation numbers, ideal AEAD) and a two-endpoint system with a "
                 "reordering/duplicating/dropping channel, for all histories: no slot ever seals more packets than the confidentiality limit, "
                 "the update starts before the limit, the integrity limit closes the connection, a higher packet number is never sealed with an "
                 "older generation, and both peers keep decrypting genuine packets of the current/next/previous generation. The last two are "
                 "proved for the repaired code and refuted by concrete counterexamples for the two pre-fix variants. Tie: limits, window and "
                 "comparison operators re-extracted with bridge lemmas, including which repair guards the source carries; the Lean driver is run "
                 "against the real KeySet with an instrumented generation-tagged key, as two endpoints with scripted channel, tiny limits. "
                 "The assumption that real keys form a proper chain (generation n opens exactly what generation n sealed, at both endpoints, "
                 "whatever TLS provider) is a named hypothesis (ChainOK; conf_limit_per_physical_key, observed_table_establishes_chain) tied by "
                 "harness vh-tls: in-memory handshakes for every s2n-tls x rustls role pair and cipher suite, both chains walked with the real "
                 "derive_next_key, open/reject tables replayed through the Lean checker, ciphertexts and header-protection masks compared byte "
                 "for byte with a pure-python RFC 9001 reference (self-tested on RFC 9001 A.1/A.3/A.5, FIPS 197, GCM and RFC 8439 vectors)."),
        "note": ("Trusted: Lean kernel (standard axioms), tools/extract.py, vh-core harness, python oracle. AEAD, HKDF and header protection are "
                 "assumed ideal; live connections with a tiny key-update window (hook h2) are not exercised."),
        "technique": "Lean 4 invariant proofs over the key-update state machine (two endpoints + adversarial channel) + regenerated-constant bridges + differential correspondence",
    },

    "C11": {
        "category": "proof",
        "text": ("Lean theorems over transcriptions of the anti-amplification allowance counter, the stateless-reset length logic, the version "
                 "negotiation decision table and the client Initial padding rule: a datagram is started only with allowance left, a produced "
                 "stateless reset is strictly smaller than its trigger and none is sent when impossible (for every random draw), Version "
                 "Negotiation only for Initial datagrams of at least 1200 bytes and never for a VN packet, client Initial datagrams padded. The "
                 "quantitative 3x bound is false of the code after an overshoot (proved counterexample, known finding F4); proved instead: the "
                 "bound with the forgiven-debt term, and the plain bound when nothing is received after an overshoot. Tie: 47 constants/operators "
                 "re-extracted with bridge lemmas; the Lean driver is run against the real stateless_reset::encode_packet (all trigger lengths "
                 "0..1500) and the real path::Path allowance counter (harness/vh-transport); wire-level oracle on end-to-end traces (lossy "
                 "handshakes, client blackholed after its first Initial, stray datagrams of unknown connection id / version / VN / tiny sizes)."),
        "note": ("Trusted: Lean kernel (standard axioms), tools/extract.py, vh-core / vh-transport / vh-e2e harnesses, python oracles. Which packets "
                 "the connection chooses to build is not modelled; Negotiator and the datagram builder are tied by G and the wire oracle only."),
        "technique": "Lean 4 theorems over allowance / reset-length / VN decision models + regenerated-constant bridges + differential and wire-level trace correspondence",
    },

    "C13": {
        "category": "proof",
        "text": ("Lean theorems by induction over arbitrary registry histories (register / retire / ack / loss / timeout / transmit): the number of "
                 "unretired IDs in the peer's view (counted per RFC 9000 5.1.1) never exceeds the peer's active_connection_id_limit, "
                 "retire_prior_to never exceeds the next sequence number, IDs and reset tokens are pairwise distinct, every registered ID routes "
                 "to its connection, only IDs the peer issued are retired and never inside a packet addressed to that ID; sequence-number "
                 "consecutiveness and retire_prior_to <= seq are proved under a monotone-expiry hypothesis, with proved counterexamples "
                 "without it; the trace acceptor is proved sound. Tie: real end-to-end traces with peer limits 2..8 (declared limit rewritten at "
                 "the TLS layer), short ID lifetimes, handshake-ID rotation, client rebinding schedules and loss of NEW/RETIRE_CONNECTION_ID "
                 "frames: every NEW_CONNECTION_ID / RETIRE_CONNECTION_ID frame and every datagram's destination ID is checked by an RFC-side "
                 "PeerView oracle and replayed through the Lean acceptor (verdicts must agree; tampered traces must be rejected by both). Routing "
                 "between connections: the mapper model (issued-id map consulted before the initial-id map; lookup_issued_id_ignores_initial_map, "
                 "swapped order refuted) is bridged to the source (tie G) and exercised with a second client whose original DCID is an ID issued to "
                 "the first connection; per-path peer IDs (active_path_packets_unretired; dropped write-back refuted) with clients toggling between "
                 "two addresses while IDs are retired. Retire Prior To only grows: both assignments in local_id_registry.rs are re-read and bridged, and "
                 "scenarios use connection-ID providers with per-ID lifetimes so that IDs expire out of sequence-number order (this exhibited on "
                 "the real code what the model had proved as a counterexample: retire_prior_to > sequence number in a frame; repaired in "
                 "/repo, f182fcd; the registry model keeps the uncapped field, the capped form is pinned by a bridge lemma and checked on "
                 "every trace)."),
        "note": ("Trusted: Lean kernel (standard axioms), vh-e2e harness, python oracle. No in-crate differential tie for the registries (private to "
                 "s2n-quic-transport). Known finding F14 (expired-unconfirmed IDs unroutable). Observation outside the property text (counted in the "
                 "evidence, not reported): path-validation probes of non-active paths keep using a peer ID the peer retired."),
        "technique": "Lean 4 invariant proofs over connection-ID registry models + end-to-end frame/routing trace oracle cross-checked with a Lean trace acceptor",
    },

    "C04": {
        "category": "proof",
        "text": ("Lean theorems over a receive-side model (stream and connection flow controllers, receive stream, stream-count controller, "
                 "stream-state checks, per-space frame table): every error the model returns is justified by a committed violation with a code "
                 "RFC 9000 allows for it (rejection_sound), violations in the covered shapes are rejected with an allowed code and the offending "
                 "packet contributes only its legal prefix, the advertised stream / connection credit never exceeds what the application read "
                 "plus the configured window for all histories (hence buffering is bounded), and the per-space frame table extracted from the "
                 "code equals RFC 9000 Table 3. The full-strength 'every violation is rejected' is false of the code in the classes recorded as "
                 "known findings (proved counterexamples). Tie: the frame table and the error codes at each check are re-extracted with bridge "
                 "lemmas; ~220 adversarial-peer end-to-end runs (about 90 attack shapes incl. exact-limit controls, both roles, Initial/"
                 "Handshake/1-RTT spaces) are judged by an RFC-side oracle (right error code, no offending byte delivered, credit bound on "
                 "every MAX_* frame) and every packet each victim processed is replayed through the Lean model, which must take the same "
                 "accept/reject(code) decision."),
        "note": ("Trusted: Lean kernel (standard axioms), tools/extract.py, vh-e2e harness, python RFC error table and oracle. No in-crate "
                 "differential (private crate): tie is G + T. The send half of streams and the connection-ID registries are not in this model."),
        "technique": "Lean 4 table/invariant theorems over the receive-side model + regenerated frame-table bridge + adversarial end-to-end runs replayed through the model",
    },
    "C17": {
        "category": "proof",
        "text": ("PARTIAL. An operational release/acquire semantics (per-location message histories, thread views, racy non-atomic accesses = "
                 "failure) is defined in Lean; the SPSC producer/consumer/close/drop step programs are transcribed by hand with the ordering of "
                 "every atomic operation a parameter. For the orderings the source has, proved by induction over all interleavings and all "
                 "stale-read choices, any capacity >= 2, any number of items: no data race on a slot, no unwritten/half-written slot read, "
                 "FIFO exactly-once delivery, and no lost wake-up for the check-register-check waiter against any notifier that wakes after its "
                 "write; weakened orderings and a reordered handshake are refuted by proved counterexamples. Tie: all 23 atomic operations "
                 "(file, fn, field, op, Ordering) and the load/wake/register call order of 15 functions are re-extracted and must equal the "
                 "proved table (a weakened ordering breaks an obligation, and a bounded search of the machine then yields a failing schedule); "
                 "the same step programs run single-threaded against the real channel; the crate's own loom scenarios run on the real code as "
                 "bounded support. Socket tasks (s2n-quic-platform task/tx.rs, task/rx.rs): for every sequence of ring / socket events inside one "
                 "poll call, each release_no_wake is followed by ring.wake() before the call returns (socket_task_no_lost_wakeup, both missing-wake "
                 "variants refuted); the two wake sites and the release / flag / return counts are re-read from the source and bridged."),
        "note": ("The theorem is about an RA semantics we define (SeqCst as AcqRel, no SC fences, no consume, no out-of-thin-air), not the full "
                 "C11 model; AtomicWaker is assumed linearizable; sync/cursor.rs data path, socket/ring.rs and wakeup_queue.rs are covered only "
                 "through the abstract handshake and the ordering bridge; loom is bounded model checking and is never counted as proof."),
        "technique": "Lean 4 induction over all interleavings of an operational release/acquire machine + regenerated atomic-ordering table bridge + single-threaded differential + loom support",
    },
    "C18": {
        "category": "proof",
        "text": ("PARTIAL (cryptographic primitives assumed ideal). Lean theorems: all six dc packet kinds round-trip for all field values and "
                 "payloads, the encoders emit exactly an independently written field table (from the Wireshark dissector), decoding is total, "
                 "for datagram / control / StaleKey / ReplayDetected and non-retransmitted stream packets every wire byte reaches the AEAD/MAC "
                 "as AAD, ciphertext or tag (so any change is rejected under the ideal-primitive assumption), genuine packets are accepted, and "
                 "for every map state a packet that does not authenticate leaves the path-secret map, key ids and handshake requests unchanged; "
                 "StaleKey only advances (fetch_max). Two classes where a changed header byte is still accepted are proved as counterexamples "
                 "and recorded as known findings. Tie: 94 tag/mask/length constants re-extracted with bridge lemmas; the Lean driver is run "
                 "against the real encoders/decoders with real aws-lc keys (both cipher suites, every byte position x several masks, "
                 "truncated/extended tags, random byte strings) and against a real path::secret::Map reached through the production entry points. "
                 "The key-phase wrapper of the stream keys (path/secret/key.rs: two opener slots, needs_update, update, dedup, Once keys) is "
                 "modelled with abstract generations: a packet that does not authenticate leaves the whole opener unchanged on both decrypt "
                 "paths, the rotation flag rises only through an authenticated packet, forged traffic is invisible to the final state and every "
                 "genuine packet of the current or next generation opens (keyphase_* theorems; the flag-before-authentication order is "
                 "refuted); tied by statement-order extraction and by a differential run on the real wrapper keys obtained through the "
                 "public Map / stream::crypto API. At the dc stream receiver every error path that would reset the stream authenticates the packet "
                 "first (statement shapes of recv/state.rs re-extracted and bridged; the receiver model and its theorems belong to C20)."),
        "note": ("Trusted: Lean kernel (standard axioms), tools/extract.py, vh-dc harness, python oracles. AEAD/HMAC are assumed ideal (exercised, "
                 "not verified); hash-table internals, cleaner thread, capacity eviction of the map are not modelled."),
        "technique": "Lean 4 round-trip / byte-coverage / no-state-change theorems + regenerated-constant bridges + differential correspondence incl. exhaustive single-byte tampering",
    },

    "C07": {
        "category": "other",
        "text": ("PARTIAL, level `other`: a theorem cannot speak about quiche's code and the property is quantified over sampled configurations. "
                 "What is proved (re-audited on every run): the Lean RFC transcriptions of varints, frames, packet numbers and transport "
                 "parameters agree with the s2n model for ALL inputs (C05/C08/C14 theorems: impl_eq_rfc_frame(s), decode_eq_rfc_parse, "
                 "encode_eq_rfc_emit, tp_accept_iff_rfc, tp_layout_eq_rfc, expand_eq_rfc, truncate_expand, ...). What is observed: sampled "
                 "interop runs of a real s2n-quic endpoint against quiche 0.29 in both roles on the deterministic IO provider with loss, "
                 "duplication, reordering and varied windows / stream limits / datagram sizes; handshake completion, absence of transport "
                 "errors and byte-exact two-way transfers are checked, every cleartext payload s2n sends to or receives from quiche is parsed "
                 "by both the real s2n decoder and the Lean RFC reference parser (must agree field by field), and both sides' transport "
                 "parameter blocks are read from the TLS messages and cross-checked against the Lean RFC table, the real decoder and the "
                 "configured values. Conformance that s2n-quic talking to itself cannot reveal is checked against independent references: "
                 "key schedule, packet and header protection of every cipher suite and TLS provider pair and the Retry integrity tag (every "
                 "value of the unused first-byte bits) against a pure-python RFC 9001 implementation self-tested on the RFC vectors; every frame "
                 "type a conformant peer may send in a 1-RTT packet is injected into real connections and must be accepted."),
        "note": ("Interop success on N sampled runs is observation, not proof. RFC 9001 key derivation is exercised (a deviation breaks every "
                 "handshake) but not modelled; version negotiation, Retry, 0-RTT, migration and key update are not sampled. TLS/BoringSSL "
                 "randomness is not seeded (verdicts are deterministic per seed, byte traces are not)."),
        "technique": "Lean RFC transcription as independent oracle on sampled s2n-quic <-> quiche traffic + re-audited conformance theorems (partial; observation for the interop itself)",
    },
    "C20": {
        "category": "proof",
        "text": ("PARTIAL. The composition theorem of C01 is instantiated for dc streams: sender and receiver SKELETONS (unacked ranges / "
                 "retransmission queue / flow offset = min(cca, local, peer max_data); packet-number dedupe, reassembly through the proved "
                 "reference buffer with rollback on failed authentication, idle deadline) with theorems for all histories: every emitted "
                 "packet (first transmission, retransmission, probe) is consistent with the written bytes and within the flow offset, each "
                 "packet number is accepted at most once, reads are a prefix of what was written and complete at end of stream for any mix "
                 "of authentic and forged packets in any order, and without an accepted packet for the idle timeout the receiver errors "
                 "by the deadline. Tie: 32 constants / expression shapes re-extracted with bridge lemmas; real client+server dc streams run "
                 "inside the bach simulation (UDP, with seeded drop / duplicate / delay of packets, MTUs 1250..32k, early shutdown / drop, "
                 "vanished peer, forgotten path secret) and over TCP on loopback, with keyed position-dependent payloads, and an oracle for "
                 "wrong / lost / duplicated bytes, incomplete EOF, hangs, late or missing errors and panics. The stream-socket (TCP) send "
                 "queue (stream/send/queue.rs) is modelled and proved for every push / flush history and every socket behaviour (short writes "
                 "of any size, pending, errors): what the socket accepted is a prefix of what was pushed, nothing is sent twice or skipped, "
                 "everything is sent once the queue is empty, the write credit is reported only after the flush (sendq_* theorems; the "
                 "`offset := n` variant is refuted); tied by translation of the offset update / pop condition and by a differential run of "
                 "the real Queue against a scripted stream socket."),
        "note": ("Sender/receiver state machines are skeletons (named abstractions of the Rust functions, listed in the file headers); the "
                 "sender's own timers and the TCP framing path are not modelled; TCP scenarios cannot inject faults and run in real time."),
        "technique": "Lean 4 instance of the reassembly/composition theorem over dc sender/receiver skeletons + regenerated-constant bridges + simulated end-to-end dc streams with fault injection",
    },
}

# additions of the 2026-09-23 session (in-crate hook, translator for the state machines, timers)
META["C12"]["text"] += (" The REAL crate-private `DataSender` (Transmissions, Buffer, interval sets) is additionally run in-crate against the Lean "
                        "data-sender model line by line (cfg-guarded hook, part C12_datasender), and real `StreamImpl` send halves are driven with adversarial "
                        "ack / loss / limit / reset histories whose wire-level history must be admitted by the Lean `send-trace` acceptor (part C12_sendstreams).")
META["C03"]["text"] += (" Real `StreamImpl` send halves with their `StreamFlowController` and a shared `OutgoingConnectionFlowController` are additionally driven "
                        "in-crate (cfg-guarded hook) with adversarial write / ack / loss / MAX_DATA / MAX_STREAM_DATA / reset histories; the wire-level history must be "
                        "admitted by the Lean `send-trace` acceptor and satisfy an independent oracle (part C03_sendstreams).")
META["C02"]["text"] += (" Timers: `Timer`, `has_elapsed`, the `Provider`/`Query` minimum over armed timers and the wake-up soundness of sleeping until "
                        "`next_expiration` are modelled (translator + bridge), proved (`timer_next_expiration_is_min`, `timer_poll_ready_iff`, `timer_wake_sound`) and run "
                        "against the real types (part C02_timer; its pacer half supports C10).")
META["C20"]["text"] += (" The protocol state machines defined with the `event!` macro (core `Sender` / `Receiver`, dc send / recv workers, dc handshake, dc manager) are "
                        "REGENERATED from the source by a translator on every run; RFC 9000 figure 2/3 agreement, absorbing terminal states, strict rank (bounded progress) "
                        "and reset-is-forever are proved about the generated machines and the public ones are run against the real types (part C20_states).")
