"""C05 part: frames (RFC 9000 §12.4/§19, RFC 9221 DATAGRAM, the two s2n extension frames)."""
from vlib import *

PROP_MODULES = ["QuicProofs.Props.C05Frame", "QuicProofs.Props.C05FrameRfc"]
BRIDGES = ["QuicProofs.Bridge.Frame"]

# frame types whose per-type theorems are not finished yet (reported in the evidence)
UNFINISHED = []


def run(ctx):
    ctx.rule += (" | frame: three generated streams (grammar-valid frames of every type at field boundaries, every first byte + random "
                 "bytes, mutations/truncations of valid frames) plus frame sequences; a case is non-trivial when the implementation "
                 "decoded a value, distinct by op line")
    ctx.assumptions += ["frame: Lean model Codec.Frame transcribes frame/*.rs by hand (tags/bounds re-extracted by tools/extractors/frame.py); "
                        "the harness renders decoded values and re-encodes them with the real encoder; zero-copy lifetimes, `unsafe` "
                        "zerocopy casts of the dc token slice and allocation are not modelled"]
    if UNFINISHED:
        ctx.notes.append("C05 frame half: per-type theorems not finished for: " + ", ".join(UNFINISHED))
    ok, out = cargo_build("vh-core")
    if not ok:
        ctx.oblige("build", "vh-core builds against /repo's working tree", False, out)
        return
    lean_ok = True
    if PROP_MODULES or BRIDGES:
        step_extract(ctx, ["frame"])
        lean_ok = step_lean(ctx, PROP_MODULES, BRIDGES)
    else:
        okb, outb = lake_build(["driver"])
        if not okb:
            ctx.oblige("build", "lean driver builds", False, outb)
            return
    if not lean_ok:
        ctx.escalated = True
    step_diff(ctx, "vh-core", "frame", "frame", tier_n(ctx, 4000, 300000))
    # Codec (through the abstraction toRfc) vs the Lean RFC transcription on the same inputs:
    # executable twin of impl_eq_rfc_frame / impl_eq_rfc_frames
    import gen.frame as g
    lines = g.gen(ctx.rng("frame-rfc"), tier_n(ctx, 2500, 100000), ctx.tier)
    rc, a, _ = run_lines([DRIVER, "frame-abs"], lines)
    rc, b, _ = run_lines([DRIVER, "frame-rfc"], lines)
    ctx.evaluations += len(lines)

    def same(op, x, y):
        if x == y:
            return True
        if x == "ext":                      # documented s2n extension frame: not an RFC frame
            return y == "err"
        # a PADDING run is one implementation value but `n` RFC frames: `dec` differs in `consumed` only
        return op.startswith("dec ") and x.startswith("ok PADDING ") and y == "ok PADDING consumed=1"
    bad = [(l, x, y) for l, x, y in zip(lines, a, b) if not same(l, x, y)]
    ctx.oblige("correspond", f"Lean Codec.Frame (via toRfc) and Rfc.Frame agree on {len(lines)} generated inputs",
               len(a) == len(lines) and len(b) == len(lines) and not bad,
               "; ".join(f"{l[:120]}: {x[:120]} vs {y[:120]}" for l, x, y in bad[:3]))
