"""C09 part: loss detection (`loss::detect`), RTT estimator, PTO state machine, recovery-manager model."""
from vlib import *

PROP_MODULES = ["QuicProofs.Props.C09Recovery", "QuicProofs.Props.C09RecoveryManager"]
BRIDGES = ["QuicProofs.Bridge.Recovery"]


def run(ctx):
    ctx.rule = ("ops are generated per component from one PRNG: loss::detect calls on a grid of thresholds x "
                "(now - sent - threshold) in {0,+-1,+-999,+-1000,+-1001,...} us x packet-number distances 0..5 plus random ones; "
                "RttEstimator / Pto operation histories separated by `reset`; a case is non-trivial when the real component "
                "returned a value (not an error/bad-op) and distinct when its op line (pto: op and result) differs")
    ctx.assumptions += [
        "Lean kernel; tools/extractors/recovery.py (statement-level translation of loss::detect, Timestamp::has_elapsed, "
        "weighted_average, loss_time_threshold; token extraction of the remaining constants/operators); vh-core harness and python oracles",
        "durations < 2^62 ns and timestamps < 2^62 us (beyond that the Rust code panics on u64/Duration overflow in debug builds)",
        "recovery::Manager (s2n-quic-transport, private) is a hand-written Lean model (QuicModel/Recovery/Manager.lean) tied to the "
        "code only through the public pieces it calls (loss::detect, RttEstimator, Pto); in-crate hook / e2e traces are the integrator's tie",
    ]
    step_extract(ctx, ["recovery"])
    lean_ok = step_lean(ctx, PROP_MODULES, BRIDGES)
    ok, out = cargo_build("vh-core")
    if not ok:
        ctx.oblige("build", "vh-core builds against /repo's working tree", False, out)
        return
    if not lean_ok:
        ctx.escalated = True
    step_diff(ctx, "vh-core", "loss", "loss", tier_n(ctx, 3000, 300000))
    step_diff(ctx, "vh-core", "rtt", "rtt", tier_n(ctx, 4000, 300000))
    step_diff(ctx, "vh-core", "pto", "pto", tier_n(ctx, 3000, 200000))
    step_diff(ctx, "vh-core", "pcong", "pcong", tier_n(ctx, 3000, 200000))
