"""C09 part: loss detection (`loss::detect`), RTT estimator, PTO state machine, recovery-manager model."""
from vlib import *

PROP_MODULES = ["QuicProofs.Props.C09Recovery", "QuicProofs.Props.C09RecoveryManager"]
BRIDGES = ["QuicProofs.Bridge.Recovery"]


def run(ctx):
    ctx.rule = ("ops are generated per component from one PRNG: loss::detect calls on a grid of thresholds x "
                "(now - sent - threshold) in {0,+-1,+-999,+-1000,+-1001,...} us x packet-number distances 0..5 plus random ones; "
                "RttEstimator / Pto operation histories separated by `reset`; a case is non-trivial when the real component "
                "returned a value (not an error/bad-op) and distinct when its op line (pto: op and result) differs")
    ctx.assumptions += [
        "Lean kernel; tools/extractors/recovery.py (statement-level translation of loss::detect, Timestamp::has_elapsed, "
        "weighted_average, loss_time_threshold; token extraction of the remaining constants/operators); vh-core harness and python oracles",
        "durations < 2^62 ns and timestamps < 2^62 us (beyond that the Rust code panics on u64/Duration overflow in debug builds)",
        "recovery::Manager (s2n-quic-transport, private) is a hand-written Lean model (QuicModel/Recovery/Manager.lean) tied to the "
        "code on every run only through the public pieces it calls (loss::detect, RttEstimator, Pto, persistent_congestion::Calculator); "
        "it was diffed once against the real Manager in a scratch copy (harness/hooks-draft/recovery_manager_verif.rs: 33,597 ops, 0 differences); "
        "the permanent tie is the integrator's in-crate hook / e2e traces. Not modelled: ECN validation, MTU controller, pacing, PTO jitter",
    ]
    step_extract(ctx, ["recovery"])
    lean_ok = step_lean(ctx, PROP_MODULES, BRIDGES)
    ok, out = cargo_build("vh-core")
    if not ok:
        ctx.oblige("build", "vh-core builds against /repo's working tree", False, out)
        return
    if not lean_ok:
        ctx.escalated = True
    # the Lean counterexample witnesses, replayed on the real code
    import gen.loss as gl
    import gen.rtt as gr
    import gen.recovery_manager as gm
    rc, w, _ = run_lines([harness_bin("vh-core"), "loss"], [gl.WITNESS_F2])
    ctx.oblige("witness", "lost_sound_strict_counterexample replays on the real loss::detect (`ok lost` 999 us early)",
               w == ["ok lost"], f"{gl.WITNESS_F2} -> {w}")
    rc, w, _ = run_lines([harness_bin("vh-core"), "rtt"], gr.WITNESS_TRUNC)
    ctx.oblige("witness", "rtt_in_sample_range_needs_mul8 replays on the real RttEstimator (smoothed 1008 ns with samples 1015 ns)",
               len(w) == 3 and w[2].split()[1:4] == ["1015", "1015", "1008"], f"{gr.WITNESS_TRUNC} -> {w[-1:]}")
    step_diff(ctx, "vh-core", "loss", "loss", tier_n(ctx, 3000, 300000))
    step_diff(ctx, "vh-core", "rtt", "rtt", tier_n(ctx, 4000, 300000))
    step_diff(ctx, "vh-core", "pto", "pto", tier_n(ctx, 3000, 200000))
    step_diff(ctx, "vh-core", "pcong", "pcong", tier_n(ctx, 3000, 200000))
    # executable twin of the history theorems on the Manager MODEL (the real Manager is private to
    # s2n-quic-transport: its tie is the in-crate hook, draft in harness/hooks-draft/): the python oracle
    # evaluated on the model's outputs must report nothing but the F2 signature
    lines = gm.gen(ctx.rng("recovery-manager"), tier_n(ctx, 3000, 100000), ctx.tier, multipath=True, mtu=True)
    rc, mo, err = run_lines([DRIVER, "recovery-manager"], lines)
    ctx.evaluations += len(lines)
    fails = [f for f in gm.oracle(lines, mo) if f[1] != "loss:time-threshold-early-within-granularity"] if len(mo) == len(lines) else [(0, "driver", err[-500:])]
    ctx.oblige("selfcheck", f"Lean recovery-manager model satisfies the C09 history oracle on {len(lines)} generated ops (F2 aside)",
               rc == 0 and not fails, "; ".join(str(f[2]) for f in fails[:3]))
    for op, out in zip(lines, mo):
        k = gm.nontrivial(op, out)
        if k is not None:
            ctx.nontrivial.add("recovery-manager|" + k)
