"""C08 part (tie T, ACK half): real client+server runs (vh-e2e) replayed through the AckManager model by the
`ack-trace` acceptor (lean/QuicModel/Drivers/AckTrace.lean, ops built by tools/e2e_ops_ack.py): application space,
both endpoints. Every transmission must be admissible for the model: its ACK ranges inside the model's ack_ranges and
starting at the largest range, no ACK frame while the model is Disabled, no packet WITHOUT ACK frame while the model is
Active / Passive-and-sending. On receiver-only endpoints (family `sink`, server) the ACK must also be on time w.r.t.
the MODEL's deadline (forced interest since / delay-timer expiry). `accepted_trace_acks_only_processed` says what an
accepted trace is worth."""
import e2e
import e2e_ops_ack
import e2e_props
from vlib import DRIVER, lake_build, run_lines

LATE_SLACK_US = 3000      # same allowance as e2e.o_c08_prompt (1 ms timer granularity on both sides + scheduling)


def make_oracle(ctx, family):
    def o_acktrace(tr):
        bad = []
        # an endpoint that panics while assembling / processing packets acknowledges nothing any more (e.g. the ACK
        # frame encoder's gap arithmetic overflows when the ranges are not strictly descending)
        if tr.end and tr.end[1] in ("panic", "crashed") and not tr.attack:
            why = (tr.panics[0] if tr.panics else tr.end[2])[:300]
            bad.append(("acktrace:endpoint-panic", f"the run ended with `{tr.end[1]}` at {tr.end[0]}us: {why}"))
        for ep in ("s", "c"):
            if tr.attack and ep == "c":
                continue      # the attacker's packets are not the implementation's choice
            ops, meta = e2e_ops_ack.ops(tr, ep)
            rc, outs, err = run_lines([DRIVER, "ack-trace"], ops)
            if len(outs) != len(ops):
                bad.append(("acktrace:driver", f"ack-trace driver answered {len(outs)} of {len(ops)} lines: {err[-200:]}"))
                continue
            ctx.evaluations += len(ops)
            n_ack = 0
            for i, (op, ans) in enumerate(zip(ops, outs)):
                a = ans.split()
                if a[0] == "ok":
                    if op.startswith("tx") and op.split()[4] != "-":
                        n_ack += 1
                        ctx.count("acktrace:tx-with-ack")
                        if "exact=0" in a:
                            ctx.count("acktrace:soft:ranges-not-exact")
                    late = next((int(x[5:]) for x in a if x.startswith("late=")), 0)
                    if late > LATE_SLACK_US:
                        if family == "sink" and ep == "s":
                            what = (f"the ACK frame in packet {op.split()[2]}" if op.startswith("tx") and op.split()[4] != "-"
                                    else "still no ACK frame")
                            t_op = op.split()[1] if op[:2] in ("rx", "tx") else op.split()[-1]
                            bad.append(("acktrace:ack-late", f"endpoint {ep} (receiver only) at {t_op}us: {what}, {late}us after the model's "
                                        f"deadline (forced transmission interest / delay-timer expiry); op `{op}`"))
                            break
                        ctx.count("acktrace:soft:late-on-sending-endpoint")
                    if "probe-noack" in a:
                        ctx.count("acktrace:soft:probe-without-ack")
                    continue
                reason = a[1] if len(a) > 1 else a[0]
                r = meta[i]
                where = f"packet {r.pn} at {r.t}us" if r is not None else f"op {i}"
                ctx_ops = " | ".join(f"{o} -> {x}" for o, x in list(zip(ops, outs))[max(0, i - 4):i + 1])
                bad.append((f"acktrace:{reason}", f"endpoint {ep} {where}: `{op}` is not admissible for the AckManager model ({reason}); context: {ctx_ops}"))
                break      # later answers of this endpoint are best-effort only
            if n_ack:
                ctx.nontrivial.add(f"acktrace|{family}|{tr.params.get('seed')}|{ep}")
        return bad
    o_acktrace.__name__ = "o_acktrace"
    return o_acktrace


def run(ctx):
    ok, out = lake_build(["driver"])
    if not ok:
        ctx.oblige("build", "lean driver builds", False, out)
        return
    ctx.assumptions.append("ack-trace: the op stream is reconstructed from public observation points (rx/tx interceptor payloads, ack_range_received / "
                           "packet_lost / packet_sent events); events at the same virtual microsecond as a received packet are attributed to that packet's "
                           "processing; on_timeout calls are not observable (the acceptor tracks both possibilities); ECN-CE is never set by the simulated network")
    for family, nq, nt in (("sink", 12, 400), ("mixed", 12, 600)):
        e2e_props.run_family(ctx, family, [make_oracle(ctx, family)], nq, nt,
                             name=f"T:{family}: every transmission of both endpoints (application space) is admissible for the AckManager model (ack-trace acceptor, HARD checks)",
                             nontrivial=lambda tr, s: s["end"] == "ok")
