"""C13 part: connection IDs are issued, routed and retired consistently.
Lean: transcribed LocalIdRegistry / PeerIdRegistry (+ shared mapper), reference `Rfc.PeerView`, theorems over all
operation histories, trace acceptor `cid-trace` with its soundness theorem.
Tie T: real end-to-end traces of the `cid` family (peer limits 2..8, connection-ID lifetimes and rotation settings,
client rebinding schedules, loss / duplication / reordering / blackholes of NEW_CONNECTION_ID and
RETIRE_CONNECTION_ID frames) checked by the python oracle `o_c13` AND replayed through the Lean acceptor."""
import e2e
import e2e_props
import e2e_c13
from vlib import DRIVER, run_lines, step_extract, step_lean

PROP_MODULES = ["QuicProofs.Props.C13ConnectionIds"]

# the Lean witnesses of C13ConnectionIds.lean replayed on the transcribed registry behind the line protocol
# (component `cid-local`): expected outputs are part of the obligation
WITNESSES = [
    # a connection ID that was never transmitted is retired by its expiration timer; the next one is announced
    # with a gap in the sequence numbers (covered by retire_prior_to)
    ("seq-gap-after-unsent-retirement",
     ["new 7 aa - 0101 0", "limit 2", "reg bb 60000000 0202", "timeout 30000000", "reg cc 200000000 0303", "tx 0 5 4"],
     "ok | seqs=0:A,1:PRC,2:PA5 rpt=2 next=3 limit=2 frames=2/2"),
    # expirations that are not monotone in the sequence number: retire_prior_to overtakes an id still waiting
    # for its first transmission -> NEW_CONNECTION_ID with retire_prior_to > sequence number
    ("rpt-gt-seq-non-monotone-lifetimes",
     ["new 7 aa - 0101 0", "limit 3", "reg bb - 0202", "reg cc 60000000 0303", "timeout 30000000", "tx 0 5 4"],
     "ok | seqs=0:A,1:PA5,2:PRC rpt=3 next=3 limit=3 frames=1/3"),
    # an id announced to the peer and never retired by it is unregistered 30 s after retire_prior_to passed it
    ("routing-expired-unconfirmed",
     ["new 7 aa - 0101 0", "limit 2", "reg bb 60000000 0202", "tx 0 5 4", "ack 5", "timeout 30000000", "timeout 60000000"],
     "ok | seqs=0:A rpt=2 next=2 limit=2 frames=1/0"),
]


def selftest(ctx, traces):
    """detector self-test: tamper with the parsed frames of a real trace (the implementation is NOT involved) and
    require that the python oracle and the Lean acceptor both reject, with the expected rule"""
    import copy
    base = None
    for tr in traces:
        if tr.attack:
            continue
        recs = [r for r in tr.recs if r.kind == "txp" and r.ep == "s" and r.space == "app"
                and sum(1 for f in r.frames if f["type"] == "NEW_CONNECTION_ID") >= 2]
        if recs:
            base = (tr, recs[0].idx)
            break
    if base is None:
        ctx.oblige("correspond", "detector self-test: a trace with two NEW_CONNECTION_ID frames in one packet exists", False, "")
        return
    tr, idx = base

    def tampered(fn):
        t2 = copy.copy(tr)
        t2.recs = []
        for r in tr.recs:
            if r.idx == idx:
                r2 = copy.copy(r)
                frames = copy.deepcopy(r.frames)
                ncid = [f for f in frames if f["type"] == "NEW_CONNECTION_ID"]
                fn(frames, ncid)
                r2._frames = frames
                t2.recs.append(r2)
            else:
                t2.recs.append(r)
        return t2

    def dup_cid(frames, n):
        n[1]["cid"] = n[0]["cid"]

    def dup_token(frames, n):
        n[1]["token"] = n[0]["token"]

    def differs(frames, n):
        frames.append(dict(n[0], cid="00" * (len(n[0]["cid"]) // 2)))

    def gap(frames, n):
        n[1]["seq"] += 5

    def rpt(frames, n):
        n[1]["retire_prior_to"] = n[1]["seq"] + 1

    def flood(frames, n):
        last = n[-1]
        for k in range(1, 9):
            # first byte XOR k: different from the original and from each other whatever the (random) token / id bytes are
            frames.append(dict(last, seq=last["seq"] + k, cid="%02x" % (int(last["cid"][:2], 16) ^ k) + last["cid"][2:],
                               token="%02x" % (int(last["token"][:2], 16) ^ k) + last["token"][2:]))

    def retire_bad(frames, n):
        frames.append({"type": "RETIRE_CONNECTION_ID", "seq": 77})

    cases = [("dup-cid", dup_cid), ("dup-token", dup_token), ("retransmit-differs", differs), ("seq-gap", gap),
             ("retire-prior-to", rpt), ("limit-exceeded", flood), ("retire-unissued", retire_bad)]
    bad = []
    for want, fn in cases:
        t2 = tampered(fn)
        py = {sig.split(":")[2] for sig, msg in e2e_c13.o_c13(t2) if "endpoint s " in msg}
        ls = e2e_c13.CidView(t2).lines("s")
        rc, out, err = run_lines([DRIVER, "cid-trace"], ls)
        lean = {o.split(" ", 1)[1] for o in out if o.startswith("err ")}
        ctx.evaluations += len(ls)
        if want not in py or want not in lean:
            bad.append(f"{want}: python={sorted(py)} lean={sorted(lean)}")
    ctx.oblige("correspond", f"detector self-test: {len(cases)} tampered traces are rejected by the python oracle and by the Lean acceptor with the expected rule",
               not bad, "; ".join(bad))


def run(ctx):
    ctx.rule = ("an end-to-end scenario counts as non-trivial when the handshake completed and at least one NEW_CONNECTION_ID "
                "frame was emitted; distinct = distinct scenario parameter sets")
    ctx.assumptions += [
        "tie T samples real client+server runs on the deterministic IO provider with an adversarial network; it validates the model/oracles, it is not the proof",
        "s2n-quic always declares active_connection_id_limit = 3 (endpoint/initial.rs, endpoint/mod.rs overwrite Limits::with_max_active_connection_ids); "
        "other peer limits are produced by rewriting the encoded transport parameter block handed to the TLS provider (harness/vh-e2e/src/tpw.rs)",
        "packet <-> datagram correlation (destination CID of the packet carrying RETIRE_CONNECTION_ID) uses the FIFO order of packet_sent events and wire lines; ambiguous cases are skipped",
        "Lean model: write context abstracted to the number of equally sized NEW_CONNECTION_ID frames that still fit; Memo caches and the stateless-reset map are not modelled",
    ]
    step_extract(ctx, ["local_ids"])
    lean_ok = step_lean(ctx, PROP_MODULES, ["QuicProofs.Bridge.LocalIds"])
    if not lean_ok:
        ctx.escalated = True
    # Lean witnesses replayed through the transcribed registry
    for name, ops, last in WITNESSES:
        rc, out, err = run_lines([DRIVER, "cid-local"], ops)
        ctx.evaluations += len(ops)
        ctx.oblige("correspond", f"Lean witness `{name}` replays on the transcribed LocalIdRegistry (cid-local)",
                   rc == 0 and len(out) == len(ops) and out[-1] == last, f"got {out[-1:]} expected {last}")
    collected = []
    for fam, nq, nt in (("cid", 36, 600),):
        collected += e2e_props.run_family(ctx, fam, [e2e_c13.o_c13], nq, nt, nontrivial=e2e_c13.nontrivial)
    # the frames of the other families (forgery, attacks excluded by the oracle itself) obey the same rules
    collected += e2e_props.run_family(ctx, "mixed", [e2e_c13.o_c13], 12, 200, nontrivial=e2e_c13.nontrivial)
    selftest(ctx, collected)
    # correspondence: every real trace is a trace the Lean acceptor (Rfc.PeerView) allows, and the acceptor's verdict
    # agrees with the python oracle's verdict on the frame rules
    items = e2e_c13.lean_lines(collected)
    lines = []
    index = []
    for tr, ep, ls in items:
        index.append((len(lines), len(ls), tr, ep))
        lines += ls + ["reset"]
        for l in ls:
            t = l.split(" ")
            if t[:2] == ["tx", "retire"]:
                ctx.count("c13:tx-retire:dcid-" + ("known" if t[3] != "-" else "unknown"))
            elif t[:2] == ["tx", "ncid"]:
                ctx.count("c13:tx-ncid")
            elif t[:2] == ["rx", "retire"]:
                ctx.count("c13:rx-retire")
            elif t[0] == "tp":
                ctx.count("c13:peer-limit:" + t[1])
    for tr in collected:
        for r in tr.recs:
            if r.kind == "ev" and r.name == "transport:endpoint_datagram_dropped":
                ctx.count("c13:endpoint-datagram-dropped")
            elif r.kind == "app" and r.what == "rebind":
                ctx.count("c13:rebinds")
    if lines:
        rc, out, err = run_lines([DRIVER, "cid-trace"], lines)
        ok_run = rc == 0 and len(out) == len(lines)
        ctx.oblige("build", "Lean driver cid-trace consumed all trace ops", ok_run, err[-500:] if err else f"{len(out)}/{len(lines)} lines")
        disagree = []
        n_ops = 0
        if ok_run:
            frame_sigs = ("seq-gap", "dup-cid", "dup-token", "retire-prior-to", "limit-exceeded", "retransmit-differs", "retire-unissued", "retire-in-own-packet")
            for start, n, tr, ep in index:
                outs = out[start:start + n]
                n_ops += n
                lean_rej = sorted({o.split(" ", 1)[1] for o in outs if o.startswith("err ")})
                bad_ops = [o for o in outs if not (o.startswith("ok") or o.startswith("err "))]
                py = sorted({sig.split(":")[2] for sig, msg in e2e_c13.o_c13(tr) if sig.split(":")[2] in frame_sigs and f"endpoint {ep} " in msg})
                for o in outs:
                    ctx.count("cid-trace:" + o.split(" ")[0])
                if lean_rej != py or bad_ops:
                    disagree.append(f"endpoint {ep} of {e2e.args_of(tr.params)}: lean={lean_rej or 'accept'} python={py or 'accept'} {bad_ops[:2]}")
        ctx.evaluations += n_ops
        ctx.oblige("correspond", f"T: the Lean acceptor cid-trace (Rfc.PeerView) and the python oracle agree on {len(index)} endpoint traces / {n_ops} wire events "
                   "(both accept, or both reject with the same rules)", not disagree, "; ".join(disagree[:4]))
        if disagree and ctx.violations:
            ctx.obligations[-1]["explained"] = True
