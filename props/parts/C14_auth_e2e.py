"""C14 part: connection-ID parameters that do not match the handshake make the handshake fail with
TRANSPORT_PARAMETER_ERROR - end to end, on real endpoints (tie T for `Conn.TpAuth`).

  Lean   QuicModel/Conn/TpAuth.lean (transcription of session_context.rs on_server_params / on_client_params /
         validate_initial_source_connection_id) + QuicModel/Conn/TpAuthWire.lean (the same decision on the raw
         extension bytes: decode, then the connection-ID checks, error code and `with_reason` text);
         QuicProofs.Props.C14TpAuthWire: the decision on the bytes is exactly RFC 9000 §7.3 on the parsed items
         (on top of `tp_cid_auth` and the §7.4/§18.2 theorems of C14TransportParams).
  T      family `tpauth` (tools/e2e_c14_auth.py): a real s2n-quic client and server, with and without a Retry; the
         transport-parameter block ONE endpoint declares is rewritten where it is handed to the TLS library
         (vh-e2e `tp_mut=<ep>:<mutation>`; the TLS transcript stays consistent, so the handshake authenticates):
         retry_source_connection_id added without a Retry (4/8/16/20 bytes, copies of the other ids), dropped / altered
         after a Retry; original_destination_connection_id and initial_source_connection_id dropped / altered (one
         byte at either end or in the middle, one byte shorter / longer, empty, random, the Retry's id instead of the
         first one, duplicated); server-only parameters in the client's block; controls that rewrite nothing or the
         same value and valid additions. Handshake facts and declared blocks are read from the wire; the python oracle
         (RFC 9000 §7.3 + §7.4/§18.2, independent of Lean) and the Lean transcription both judge what the validating
         endpoint did (handshake complete / transport error code / reason / CONNECTION_CLOSE frames).
"""
import os

import e2e_c14_auth
import e2e_props
from vlib import *

PROP_MODULES = ["QuicProofs.Props.C14TpAuthWire"]


def run(ctx):
    rule = ("tpauth: a run is non-trivial when the validator of the REWRITTEN block reached transport-parameter processing "
            "(transport_parameters_received event, or a local TRANSPORT_PARAMETER_ERROR close) and gave a verdict "
            "(handshake complete / local transport error), and the handshake facts could be read unambiguously from the wire; "
            "a synthetic (handshake, block) pair is non-trivial when the model accepts it")
    ctx.rule = (ctx.rule + " | " if ctx.rule else "") + rule
    ctx.extra["tpauth_nontrivial_rule"] = rule      # (another part of C14 assigns ctx.rule afterwards)
    ctx.assumptions += [
        "tie T (tpauth) samples real client+server handshakes on the deterministic IO provider; the rewrite of the declared block happens "
        "inside the harness' TLS-provider wrapper (harness/vh-e2e/src/tpw.rs), i.e. the REAL validator sees bytes a real peer could have sent",
        "s2n-quic servers use ONE connection ID as Retry Source Connection ID and as Source Connection ID of their Initial packets, so on "
        "these endpoints a validator that confuses the two expected values is not distinguishable end to end (the Lean model keeps them apart)",
        "a server that rejects the client's parameters while processing the first packet of a connection drops the attempt without a "
        "CONNECTION_CLOSE (endpoint/initial.rs); the oracle requires the frame only from a client validator (§10.2.3)"]
    lean_ok = step_lean(ctx, PROP_MODULES, [])
    if not lean_ok and not os.environ.get("VERIF_NO_ESCALATE"):
        ctx.escalated = True
    e2e_c14_auth.synthetic_crosscheck(ctx, tier_n(ctx, 4000, 60000))
    n_cases = len(e2e_c14_auth.CASES)

    def post(traces):
        e2e_c14_auth.model_conformance(ctx, traces)
        reached = sum(1 for tr in traces if e2e_c14_auth.nontrivial(tr, None))
        ctx.extra["tpauth_runs"] = len(traces)
        ctx.extra["tpauth_runs_reaching_parameter_validation"] = reached
        ctx.extra["tpauth_cases"] = n_cases
        ctx.oblige("oracle", f"T:tpauth is non-trivial: {reached} of {len(traces)} runs reached transport-parameter validation with a verdict "
                   f"(required: at least 90%)", reached * 10 >= len(traces) * 9, f"{reached}/{len(traces)}")
        for tr in traces[:3]:
            ctx.sample({"e2e_family": "tpauth", **e2e_c14_auth.summary_line(tr)})

    e2e_props.run_family(ctx, "tpauth", [e2e_c14_auth.o_c14_auth], n_cases, 6 * n_cases, nontrivial=e2e_c14_auth.nontrivial, post=post)
