"""C12 part (Lean side + tie T through the trace acceptor): what an endpoint sends on a stream / at close is
self-consistent.

Theorems: QuicProofs.Props.C12DataSender (component models DataSender / OpenIds / CloseSender by induction over
all op histories + soundness of the trace acceptor `send-trace`). Tie T: real end-to-end traces (families
flowctl, mixed) replayed per endpoint through the acceptor. The known finding (empty stream-open STREAM frame
re-sent after RESET_STREAM) is reported by the acceptor with the reason `stream-after-reset:empty-open-notify`
and mapped to the signature `e2e:c12:stream-after-reset:empty-open-notify`."""
import e2e_ops_send
from vlib import step_extract, step_lean

from props.parts import C03_sendtrace

PROP_MODULES = ["QuicProofs.Props.C12DataSender"]


def run(ctx):
    ctx.assumptions.append("send-trace acceptor (Lean) is tied to /repo by replaying real endpoint histories (tie T, sampling); "
                           "the component models DataSender/OpenIds/CloseSender are hand transcriptions of sync/data_sender*.rs, "
                           "stream/manager.rs, connection/close_sender.rs (private internals: no differential run; close_sender.rs is "
                           "re-read on every run by tools/extractors/close_sender.py and bridged, tie G)")
    step_extract(ctx, ["close_sender"])
    step_lean(ctx, PROP_MODULES, ["QuicProofs.Bridge.CloseSender"])
    traces = C03_sendtrace.run_traces(ctx, "C12")
    if traces is None:
        return
    e2e_ops_send.check_traces(ctx, traces, "C12", "flowctl+mixed")
