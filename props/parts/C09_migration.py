"""C09 part (tie T): bytes in flight are exact PER PATH. Every path has its own congestion controller; a packet that was
sent on one path and is acknowledged (or declared lost) while another path is current must be credited to ITS path's
controller with ITS size. Family `migration`: the client's address changes in the middle of a server-to-client bulk
transfer (often back and forth between two addresses, so that the old path becomes current again and reports its
bytes_in_flight); oracle: `e2e.o_c09`, which attributes every sent packet to a path through the datagram's destination
address on the simulated wire and reconciles each recovery:metrics_updated report with the unresolved packets of the
path the report names."""
import e2e
import e2e_props
from vlib import step_extract, step_lean

BRIDGES = ["QuicProofs.Bridge.RecoveryPaths"]


def nontrivial(tr, s):
    st = e2e.c09_path_stats(tr)
    return st["cross-path-acked"] + st["cross-path-lost"] > 0 and st["reports-after-return"] > 0


def run(ctx):
    ctx.assumptions.append("o_c09 per path: a packet's path is the path whose peer address the datagram was sent to (FIFO correlation of packet_sent events and "
                           "wire lines; reports with an outstanding packet that cannot be attributed are skipped); a path's bytes_in_flight is only "
                           "reported while that path is the current one")
    # tie G: the statements of recovery/manager.rs that credit a resolved packet to the controller of ITS path with ITS size
    step_extract(ctx, ["recovery_paths"])
    if not step_lean(ctx, [], BRIDGES, extra_targets=()):
        ctx.escalated = True
    traces = e2e_props.run_family(ctx, "migration", [e2e.o_c09], 24, 600, nontrivial=nontrivial,
                                  name="T:migration: o_c09 (per-path bytes in flight, loss justification with the sending path's RTT) holds while the client's address "
                                       "changes during a bulk transfer")
    n10 = back = cross = 0
    for tr in traces:
        st = e2e.c09_path_stats(tr)
        for k, v in st.items():
            if v:
                ctx.count("c09:migration:runs-with-" + k)
        ctx.count("c09:migration:total-cross-path-acked", st["cross-path-acked"])
        ctx.count("c09:migration:total-cross-path-lost", st["cross-path-lost"])
        ctx.count("c09:migration:total-reports-after-return", st["reports-after-return"])
        n10 += 1 if st["inflight-at-switch"] >= 10 else 0
        back += 1 if st["reports-after-return"] else 0
        cross += 1 if st["cross-path-acked"] and st["reports-after-return"] else 0
    if traces:
        ctx.count("c09:migration:runs-with-10-or-more-in-flight-at-switch", n10)
        ctx.oblige("coverage", f"migration: the active path changes while >= 10 ack-eliciting packets are in flight in at least a third of the runs ({n10} of {len(traces)}), "
                   f"a left path reports again in at least a quarter ({back}), and packets are acknowledged across paths before such a report in at least 3 ({cross})",
                   3 * n10 >= len(traces) and 4 * back >= len(traces) and cross >= 3, f"{n10}/{back}/{cross} of {len(traces)}")
