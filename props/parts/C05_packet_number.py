"""C05 part: the packet-number field of the packet headers (1-4 bytes, length in the two low bits of the first byte)."""
from vlib import *

PROP_MODULES = ["QuicProofs.Props.C05PacketNumber"]
BRIDGES = ["QuicProofs.Bridge.PacketNumber"]


def run(ctx):
    ctx.assumptions += ["packet-number field: header protection of the length bits / packet-number bytes is not part of this component (C06)"]
    step_extract(ctx, ["packet_number"])
    lean_ok = step_lean(ctx, PROP_MODULES, BRIDGES)
    ok, out = cargo_build("vh-core")
    if not ok:
        ctx.oblige("build", "vh-core builds against /repo's working tree", False, out)
        return
    if not lean_ok:
        ctx.escalated = True
    step_diff(ctx, "vh-core", "packet_number", "packet_number", tier_n(ctx, 2000, 200000))
