"""C01 part (tie T): application bytes read == prefix of bytes written, on real end-to-end runs under network faults."""
import e2e
import e2e_props


def run(ctx):
    ctx.assumptions.append('tie T samples real client+server runs on the deterministic IO provider with an adversarial network; it validates the model/oracles, it is not the proof')
    e2e_props.run_family(ctx, 'mixed', [e2e.o_c01, e2e.o_c02_term], 48, 1500)
    e2e_props.run_family(ctx, 'apis', [e2e.o_c01, e2e.o_c02_term], 36, 900)
