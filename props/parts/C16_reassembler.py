"""C16 part 3: the stream reassembly buffer (s2n_quic_core::buffer::Reassembler) vs the reference buffer."""
from vlib import *

PROP_MODULES = ["QuicProofs.Props.C16Reassembler", "QuicProofs.Props.C16SlotBuf"]
BRIDGES = ["QuicProofs.Bridge.Reassembler"]


def run(ctx):
    import gen.reassembler as g
    ctx.rule = (ctx.rule + " | " if ctx.rule else "") + (
        "reassembler: histories of writes (keyed position-dependent payloads, overlapping/duplicate/nested/inconsistent, "
        "with and without FIN), reads with watermarks, single pops, skips and resets against the real Reassembler; a case is "
        "non-trivial when the implementation accepted a write/skip or handed out bytes, distinct by op line + resulting sizes")
    ctx.assumptions += [
        "reassembler: the theorems are about Data.RefBuf, which abstracts the slot/allocation layer (for it, chunk lengths are only "
        "checked for legality: 1 <= k <= min(watermark, len)); Data.SlotBuf transcribes the slot layer and is tied to the real code by "
        "the differential run incl. chunk boundaries and report(), but SlotBuf-refines-RefBuf is not proved; BytesMut pointer "
        "bookkeeping and the unsafe assume!s are not modelled (the debug invariants() of the real code stay enabled in the harness build)",
        "reassembler: fallible readers (Error::ReaderError, cursor snapshot/rollback in write_reader) are outside the public "
        "write_at/write_at_fin API and not modelled"]
    step_extract(ctx, ["reassembler"])
    lean_ok = step_lean(ctx, PROP_MODULES, BRIDGES)
    ok, out = cargo_build("vh-core")
    if not ok:
        ctx.oblige("build", "vh-core builds against /repo's working tree", False, out)
        return
    if not lean_ok:
        ctx.escalated = True
    import gen.reassembler_slots as gs
    thorough = ctx.tier == "thorough" or ctx.deep
    g.diff(ctx, tier_n(ctx, 2000, 30000), exhaustive_too=thorough)
    # second layer: Data.SlotBuf (transcription of the slot/allocation code) against the same real object,
    # compared including the chunk boundaries of every pop and report()
    gs.diff(ctx, tier_n(ctx, 1000, 15000), exhaustive_too=thorough)
    if ctx.tier == "thorough" or ctx.deep:
        ctx.exhaustive = True
        ctx.extra["reassembler_exhaustive"] = (f"all op sequences of length <= 4 over {len(g.EX_FULL)} ops (6 offsets x 4 lengths, FIN variants, "
                                               f"reads, single pop, skips) and length <= 5 over {len(g.EX_SMALL)} ops")
    else:
        ctx.extra["reassembler_exhaustive"] = (f"quick tier: all op sequences of length <= 2 over {len(g.EX_FULL)} ops and <= 3 over {len(g.EX_SMALL)} ops")
