"""C11 part: no amplification towards unvalidated / unknown peers.
   G  : tools/extractors/amplification.py + QuicProofs.Bridge.Amplification
   D  : real `packet::stateless_reset::encode_packet` (vh-core) and real `path::Path` (vh-transport) vs the Lean models
   T  : wire-level oracle (tools/e2e_c11.py) on lossy/duplicating handshakes and on runs with injected datagrams that
        belong to no connection (unknown CID, unknown version, Version Negotiation, tiny)."""
from vlib import *
import e2e_props
import e2e_c11

PROP_MODULES = ["QuicProofs.Props.C11Amplification"]
# the close sender charges every copy of the close packet to the path (`path.on_bytes_transmitted(len)` in write_payload):
# "counting every packet type including ... connection-close packets"; its shape is pinned by the C12 extractor / bridge
BRIDGES = ["QuicProofs.Bridge.Amplification", "QuicProofs.Bridge.CloseSender"]


def fam_c11_handshake(rng, i):
    """the shared `handshake` family with whole datagrams recorded (needed to see coalesced Handshake packets)"""
    p = e2e_props.fam_handshake(rng, i)
    p["wire_head"] = 1600
    if p.get("max_mtu") == 1200:
        p["max_mtu"] = 1300     # the IO provider refuses an MTU of 1200 (setup panics before any datagram)
    return p


def fam_c11_amplimit(rng, i):
    """the client's first Initial arrives, everything else from the client is lost for a while: the server has to
    stop after three times the bytes of that one datagram (retransmissions and probes included), then the
    network heals and the handshake completes"""
    heal = rng.choice([700, 1500, 4000, 9000])
    p = {
        "seed": rng.randrange(1, 2**40), "bidi": 1, "size": rng.choice([100, 20000]), "chunk": 1000,
        "delay_ms": rng.choice([1, 5, 25]), "bh": f"1:{heal}:1", "deadline_ms": 120000, "wire_head": 1600, "payloads": 0,
        "max_mtu": rng.choice([0, 0, 1300, 9000]),
    }
    if rng.random() < 0.5:
        # some server datagrams are lost too, some client datagrams get through late
        p["drop_pm"] = rng.choice([100, 300])
        p["dup_pm"] = rng.choice([0, 200])
        p["faults_until_ms"] = heal + 2000
    return e2e_props._nz(p)


STRAY_SIZES = [20, 40, 41, 42, 43, 44, 58, 100, 600, 1199, 1200, 1201, 1350]


def fam_c11_unknown(rng, i):
    """a plain transfer during which an off-path attacker address sends datagrams that belong to no connection;
    stateless resets are enabled on the server (they are off by default in s2n-quic)"""
    p = {
        "seed": rng.randrange(1, 2**40), "bidi": 1, "size": rng.choice([60000, 150000]), "chunk": 4000,
        "delay_ms": rng.choice([2, 10, 25]), "deadline_ms": 60000, "wire_head": 1600, "sreset": 1,
        "inject_kind_pm": 1000, "inject_burst": rng.choice([2, 8]), "payloads": 0,
    }
    k = i % 6
    if k < 3:
        p["inject_kind"] = "mix"
    else:
        p["inject_kind"] = ["unknown-cid-short", "unknown-version-long", "vn-packet"][k - 3]
        if rng.random() < 0.6:
            p["inject_size"] = rng.choice(STRAY_SIZES)
    if rng.random() < 0.3:
        p["drop_pm"] = 50
        p["faults_until_ms"] = 2000
    return p


def fam_c11_migrate(rng, i):
    """new peer addresses in the middle of a connection: the client rebinds (NAT rebinding: its next datagram, often a
    small ACK, arrives from a new address) while the server is sending a large transfer, an off-path attacker re-sends
    genuine small client datagrams from a third address that never answers PATH_CHALLENGE, and in some runs one side
    closes shortly after a rebind. Every such address is unvalidated until a PATH_RESPONSE from it was processed."""
    d = rng.choice([5, 20, 40]) if i % 4 != 2 else rng.choice([20, 40])
    n_rebind = rng.choice([1, 2, 3])
    first = rng.choice([80, 150, 300])
    if i % 8 != 7:
        first = max(first, 8 * d)       # after the handshake (a rebind DURING the handshake: every 8th run)
    times = sorted(first + k * rng.choice([4 * d + 7, 200, 500]) for k in range(n_rebind))
    p = {
        "seed": rng.randrange(1, 2**40), "bidi": rng.choice([0, 1]), "uni": 0, "suni": rng.choice([1, 2, 3]),
        "size": rng.choice([300000, 1000000]), "chunk": 20000, "delay_ms": d, "deadline_ms": 120000, "wire_head": 1600,
        "rebind_at_ms": ",".join(str(t) for t in times), "rebind_ip": rng.choice([0, 1, 2]),
    }
    k = i % 4
    if k == 1:
        p["spoof_pm"] = rng.choice([30, 100])
        p["spoof_max_len"] = rng.choice([0, 100])
    elif k == 2:
        # the server application closes while the newest path is still unvalidated and (the client only acknowledges:
        # small datagrams) at its limit after the padded PATH_CHALLENGE
        # the client keeps writing too (so its first datagram from the new address leaves right after the rebind and reaches
        # the server one delay later; the PATH_RESPONSE follows two delays after that), the server has far more to send
        # than three times what arrives
        p["bidi"] = 1
        p["sclose_at_ms"] = times[-1] + d + rng.choice([1, max(2, d // 2), d, d + d // 2])
    elif k == 3:
        p["close_at_ms"] = times[-1] + rng.choice([1, d + 1, 2 * d + 1])
        p["spoof_pm"] = rng.choice([0, 50])
    if rng.random() < 0.4 and k != 2:
        p["drop_pm"] = rng.choice([30, 100])
        p["faults_until_ms"] = times[-1] + 1000
    return e2e_props._nz(p)


e2e_props.FAMILIES.setdefault("c11-migrate", fam_c11_migrate)
e2e_props.FAMILIES.setdefault("c11-handshake", fam_c11_handshake)
e2e_props.FAMILIES.setdefault("c11-unknown", fam_c11_unknown)
e2e_props.FAMILIES.setdefault("c11-amplimit", fam_c11_amplimit)


def run(ctx):
    ctx.rule = ("D: generated op lines per component (every stateless-reset trigger length 0..1500 x tag lengths x random draws hitting both ends "
                "of the range; allowance histories that spend the credit exactly / overshoot / receive after an overshoot); a case is non-trivial "
                "when the implementation produced a value (a reset length, an accepted or refused datagram) and distinct when op+answer differ. "
                "T: a scenario is non-trivial when the handshake completed and data was read (handshake family) or when the server answered at "
                "least one injected datagram (unknown family)")
    ctx.assumptions += [
        "Lean kernel; tools/extractors/amplification.py (regex extraction of constants, comparison operators and statement shapes); "
        "vh-core / vh-transport / vh-e2e harnesses and the python oracles",
        "endpoint::version::Negotiator and the datagram builder are private to s2n-quic-transport: their models are tied by G (shape extraction) "
        "and by the wire-level oracle T only; which packets a connection chooses to build is not modelled",
        "tie T samples real client+server runs on the deterministic IO provider with an adversarial network; it validates the model/oracles, it is not the proof",
    ]
    step_extract(ctx, ["amplification", "close_sender"])
    lean_ok = step_lean(ctx, PROP_MODULES, BRIDGES)
    if not lean_ok:
        ctx.escalated = True     # a proof obligation / bridge broke: search deeper for a concrete failing input
    ok, out = cargo_build("vh-core")
    if not ok:
        ctx.oblige("build", "vh-core builds against /repo's working tree", False, out)
    else:
        step_diff(ctx, "vh-core", "stateless_reset", "stateless_reset", tier_n(ctx, 3000, 300000))
    ok, out = cargo_build("vh-transport")
    if not ok:
        ctx.oblige("build", "vh-transport builds against /repo's working tree (public path::Path API)", False, out)
    else:
        step_diff(ctx, "vh-transport", "amplification", "amplification", tier_n(ctx, 400, 40000))
    # ---- tie T
    e2e_props.run_family(ctx, "c11-handshake", [e2e_c11.o_c11], 24, 600)
    lim = {"unvalidated_server_datagrams": 0, "reached_limit": 0, "client_initials": 0}

    def nt_lim(tr, s):
        st = e2e_c11.stats(tr)
        for k in lim:
            lim[k] += st[k]
        return s["end"] == "ok" and st["reached_limit"] > 0

    e2e_props.run_family(ctx, "c11-amplimit", [e2e_c11.o_c11], 12, 200, nontrivial=nt_lim)
    ctx.extra["c11_amplimit_family"] = dict(lim)
    ctx.oblige("coverage", f"T:c11-amplimit drove the server to its amplification limit ({lim['reached_limit']} datagrams ended exactly at/over 3x, "
               f"{lim['unvalidated_server_datagrams']} server datagrams before validation)", lim["reached_limit"] > 0,
               "no scenario reached the limit: the family no longer exercises the property")
    mig = {"unvalidated_new_path_datagrams": 0, "new_path_reached_limit": 0}

    def nt_mig(tr, s):
        st = e2e_c11.stats(tr)
        for k in mig:
            mig[k] += st.get(k, 0)
        return st.get("unvalidated_new_path_datagrams", 0) > 0

    e2e_props.run_family(ctx, "c11-migrate", [e2e_c11.o_c11], 24, 400, nontrivial=nt_mig)
    ctx.extra["c11_migrate_family"] = dict(mig)
    ctx.oblige("coverage", f"T:c11-migrate sent to not yet validated new peer addresses ({mig['unvalidated_new_path_datagrams']} server datagrams "
               f"before path validation, {mig['new_path_reached_limit']} of them ended at/over 3x)", mig["new_path_reached_limit"] > 0,
               "no run drove a new path to its amplification limit: the family no longer exercises the property")
    seen = {"replies": 0, "vn_replies": 0, "sreset_replies": 0, "strays": 0}

    def nontrivial(tr, s):
        st = e2e_c11.stats(tr)
        for k in seen:
            seen[k] += st[k]
        return st["replies"] > 0

    e2e_props.run_family(ctx, "c11-unknown", [e2e_c11.o_c11], 12, 200, nontrivial=nontrivial)
    ctx.extra["c11_unknown_family"] = dict(seen)
    ctx.oblige("coverage", f"T:c11-unknown exercised both reply kinds (injected {seen['strays']}, stateless resets {seen['sreset_replies']}, "
               f"version negotiations {seen['vn_replies']})", seen["sreset_replies"] > 0 and seen["vn_replies"] > 0,
               "the server never answered an injected datagram: the scenario family no longer exercises the property")
