"""C18 part: the key-phase wrappers `path::secret::{seal,open}::Application` / `::Once` (dc/s2n-quic-dc/src/path/secret/key.rs)
and the `update()` call sites of the stream code: a packet that does not authenticate leaves slots, expected phase,
needs_update and the dedup cell untouched on both decrypt paths; forged traffic cannot desynchronise the key phases."""
from vlib import *

PROP_MODULES = ["QuicProofs.Props.C18KeyPhase"]
BRIDGES = ["QuicProofs.Bridge.DcKeyPhase"]


def run(ctx):
    ctx.level = "proof"
    ctx.rule = ("dc_keyphase: REAL wrapper keys obtained through `Map::get_tracked(..).pair`, `Map::pair_for_credentials`, `Peer::seal_once`, "
                "`Map::open_once` on a real client and server `path::secret::Map` (both cipher suites), driven directly (`raw`) and inside the "
                "production `stream::crypto::Crypto::{seal_with, open_with}` (`stream`): genuine runs across 2-3 key updates per direction "
                "(4096-record debug budget), forged packets = every combination (phase bit kept|flipped) x (none|header|ciphertext|tag|pn|"
                "several bytes) x (copy|inplace) right before / after the sealer's and the opener's update, reordered / duplicated / "
                "out-of-generation genuine packets, replayed credentials (3 opener instances per key id, key ids beyond the replay window), "
                "Once keys, cross-stream / reflected packets, random op sequences. A case is non-trivial when the implementation opened or "
                "rejected a packet / performed an update; distinct by op line (accepted) or (opener, phase flag, mutation kind, error) (rejected)")
    ctx.assumptions += [
        "AEAD ASSUMED IDEAL in the Lean model (`aeadOpens`): a key opens exactly the unaltered packets sealed with that very key "
        "(same chain and generation); keys of different chains / generations are distinct. The differential run uses the real aws-lc keys",
        "the wrappers are modelled sequentially: the stream code touches them only under `Mutex<Sealer>` / `Mutex<Opener>` (stream/crypto.rs); "
        "`encrypted_records` is a Nat (u64 wrap-around not modelled)",
        "opener state is observed through the `{:?}` rendering of the real structs (key_phase, needs_update, dedup cell) and the "
        "`stream_{read,write}_key_updated` events; which generation each slot holds is observed only behaviourally (which packets open)",
        "the harness is a debug build: MAX_RECORDS = TEST_MAX_RECORDS = 4096 (the release value LIMIT - THRESHOLD is bridged, not exercised)",
        "Lean kernel; tools/extractors/dc_keyphase.py regex extraction; vh-dc harness, python generator and oracle",
    ]
    step_extract(ctx, ["dc_keyphase", "dc_replay"])
    lean_ok = step_lean(ctx, PROP_MODULES, BRIDGES)
    ok, out = cargo_build("vh-dc")
    if not ok:
        ctx.oblige("build", "vh-dc builds against /repo's working tree", False, out)
        return
    if not lean_ok:
        ctx.escalated = True
    step_diff(ctx, "vh-dc", "dc_keyphase", "dc_keyphase", tier_n(ctx, 3000, 40000))
