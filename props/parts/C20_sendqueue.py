"""C20 part: the dc stream SEND QUEUE on stream sockets (the TCP half of "the bytes one application reads are exactly
the bytes the other wrote"): dc/s2n-quic-dc/src/stream/send/queue.rs + msg/segment.rs `Batch::new`.

  * theorems  QuicProofs.Props.C20SendQueue over the transcription Quic.Dc.SendQueue: for every history of pushes and
              flushes and every socket behaviour (short writes of any size, Pending, errors) the bytes the socket accepted
              are exactly a prefix of the pushed bytes, all of them once the queue is empty, credit only after a full
              flush; counterexample for `segment.offset = n`
  * tie G     tools/extractors/dc_sendqueue.py -> QuicProofs.Bridge.DcSendQueue (the `+=` of the offset and the pop
              condition are TRANSLATED; loop/credit/error shapes)
  * tie D     harness/vh-dc `dc_sendqueue`: the REAL `Queue` filled through `push_buffer`/`Message::push` and flushed through
              `poll_flush` against a scripted mock `Socket` (stream and datagram flavour); queue contents incl. offsets, bytes
              the socket accepted, iovec batches and credit compared with the Lean driver after every op; python oracle
              (tools/gen/dc_sendqueue.py) keeps its own copy of everything pushed
  * oracle sensitivity: the same histories answered by the SEEDED model (`dc_sendqueue_seeded`) must make the oracle
              report `dcsendq:bytes-resent` (the generated histories do contain a second consecutive short write
              inside one segment)
"""
from vlib import *

PROP_MODULES = ["QuicProofs.Props.C20SendQueue"]
BRIDGES = ["QuicProofs.Bridge.DcSendQueue"]
HARNESS = "vh-dc"
COMP = "dc_sendqueue"


def run(ctx):
    ctx.rule += (" | sendqueue: histories = push/flush sequences on ONE real Queue with a scripted socket: 2, 3, many consecutive short "
                 "writes inside one segment, across and exactly at segment boundaries, pushes between short writes, Pending/exhausted/"
                 "zero-byte/error answers, ECN changes, undersized segments, more than MAX_COUNT segments, 16 KiB..64 KiB-1 segments, "
                 "datagram mode; non-trivial = a flush in which the socket accepted bytes, distinct by (op line, result prefix)")
    ctx.assumptions += [
        "sendqueue: Lean model Quic.Dc.SendQueue transcribes queue.rs (push_buffer, poll_flush, poll_flush_segments_{stream,datagram}, "
        "consume_segments) and msg/segment.rs Batch::new with the Linux+GSO constants (MAX_COUNT 44, MAX_TOTAL 65487, Gso default 10, "
        "all three reported by the harness and compared); allocator reuse, events and wakers are not modelled",
        "sendqueue: the socket is any sequence of answers Ready(Ok(n <= offered)) / Pending / Err; the kernel's TCP and the sealing of "
        "the packets pushed into the queue are outside this component",
    ]
    step_extract(ctx, ["dc_sendqueue"])
    lean_ok = step_lean(ctx, PROP_MODULES, BRIDGES)
    ok, out = cargo_build(HARNESS)
    if not ok:
        ctx.oblige("build", "vh-dc builds against /repo's working tree", False, out)
        return
    if not lean_ok:
        ctx.escalated = True
    lines, r_out, l_out, mism = step_diff(ctx, HARNESS, COMP, "dc_sendqueue", tier_n(ctx, 4000, 120000))
    # oracle sensitivity on the very same histories
    import gen.dc_sendqueue as g
    rc, s_out, s_err = run_lines([DRIVER, "dc_sendqueue_seeded"], lines)
    sigs = {}
    if rc == 0 and len(s_out) == len(lines):
        for _, sig, _ in g.oracle(lines, s_out):
            sigs[sig] = sigs.get(sig, 0) + 1
    ctx.extra["sendqueue_seeded_model"] = {"what": "oracle verdicts on the outputs of the seeded model (`segment.offset = n`) for the generated histories",
                                           "signatures": sigs}
    ctx.oblige("correspond", "sensitivity: the oracle reports dcsendq:bytes-resent on the seeded model's answers to the generated histories "
               f"({sigs.get('dcsendq:bytes-resent', 0)} histories)", sigs.get("dcsendq:bytes-resent", 0) >= 10,
               f"rc={rc} signatures={sigs} {s_err[-300:] if rc else ''}")
