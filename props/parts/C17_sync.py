"""C17 part: lock-free spsc queue / wakers (s2n-quic-core sync::{spsc, cursor, worker, atomic_waker}).

PARTIAL.  What is proved is proved about a release/acquire (RA) semantics DEFINED IN LEAN and a hand
transcription of the Rust code into it.  The ties to the code are
  G  tools/extractors/sync_orderings.py: every atomic op + Ordering, and the order of the
     store/wake/register/re-check calls, re-extracted on every run and pinned by a bridge lemma;
  D  the sequential behaviour of the REAL channel (vh-core `spsc`) against the Lean `spsc-seq` model;
  loom (bounded model checking of the real code) as SUPPORT only: never counted as a discharged proof
     obligation, but a failing scenario is a violation.
"""
import concurrent.futures
import hashlib
import json
import subprocess

from vlib import *

PROP_MODULES = ["QuicProofs.Props.C17Spsc", "QuicProofs.Props.C17SocketTask"]
BRIDGES = ["QuicProofs.Bridge.SyncOrderings", "QuicProofs.Bridge.SocketTask"]

CRATE_DIR = os.path.join(REPO, "quic", "s2n-quic-core")
VERIF_LOOM_FILE = os.path.join(CRATE_DIR, "src", "sync", "verif_loom.rs")
# like vlib.TARGET: a scratch repo gets its own target dir (mtime fingerprints + symlink-free here, but a
# mutant must never be tested with the binary of /repo)
LOOM_TARGET = os.path.join(CACHE, "target-loom" if os.path.realpath(REPO) == os.path.realpath("/repo")
                           else "target-loom-" + hashlib.sha256(os.path.realpath(REPO).encode()).hexdigest()[:8])

# measured on the unchanged /repo (debug profile, 4 scenarios in parallel, machine load average > 150):
#   LOOM_MAX_PREEMPTIONS=2: 9 crate scenarios 23 s wall (slowest 17 s, 73..364 executions each), +12 s for the 4 add-only ones
#   LOOM_MAX_PREEMPTIONS=3: 141 s wall (slowest 104 s, 176..1586 executions), +83 s for the add-only ones (<= 5861 executions)
# LOOM_MAX_BRANCHES is left at loom's default (1000); the per-scenario bounds below are deliberately generous.
LOOM_TEST_TIMEOUT = {"quick": 900, "thorough": 5400}
LOOM_BUILD_TIMEOUT = 3 * 3600
LOOM_WORKERS = 4
ANSI = re.compile(r"\x1b\[[0-9;]*m")


def run(ctx):
    ctx.level = "proof"
    ctx.rule = ("PARTIAL. sequential histories (new/push/apush/pop/apop/dropsend/droprecv/stat separated by reset; fixed "
                "fill/wrap/park-then-wake/close histories plus random ones from one PRNG) are run on the real "
                "sync::spsc channel and on the Lean model; a case is non-trivial when the channel answered ok/err and "
                "distinct when (op line, answer) differs. Concurrent behaviour is covered by theorems over an RA "
                "semantics defined in Lean, by a bounded schedule search in that model when a bridge breaks, and by "
                "loom (bounded, support only)")
    ctx.assumptions += [
        "PARTIAL: the theorems are statements about a release/acquire (RA) semantics DEFINED IN LEAN, not about the "
        "Rust/C++20 memory model itself",
        "the transcription of sync/spsc/{state,send,recv}.rs, sync/worker.rs, sync/atomic_waker.rs into that semantics is "
        "by hand; it is validated by D (single-threaded, real code vs model) and by loom (bounded: LOOM_MAX_PREEMPTIONS "
        "2/3, capacity 2, <= 2x3 items), and pinned by the SyncOrderings bridge (every atomic op's Ordering and the order "
        "of store/wake/register/re-check calls, regex-extracted)",
        "atomic_waker::AtomicWaker (external crate; loom's AtomicWaker under --cfg loom) is not verified: its documented "
        "register/wake contract is assumed",
        "socket/ring.rs (s2n-quic-platform) and wakeup_queue.rs are covered ONLY through the abstract "
        "check/register/re-check vs publish/wake handshake lemma; their shared-memory cursor (sync/cursor.rs) only through "
        "its orderings in the bridge; raw allocation/dealloc, Cell<T> reads/writes and ZST handling are not modelled "
        "beyond data-race freedom of slot accesses in the RA model",
        "loom explores the REAL code but only under its own bounded C11 approximation; it is recorded as support and "
        "never counted as a discharged proof obligation",
    ]
    ctx.explanation = ("PARTIAL proof. QuicProofs.Props.C17Spsc proves, for an operational release/acquire view machine DEFINED IN "
                       "LEAN (QuicModel/Sync/RaMachine.lean) and hand-transcribed step programs of sync/spsc/{state,send,recv,slice}.rs, "
                       "by induction over ALL interleavings and ALL stale-read choices, any capacity >= 2 and any number of items, incl. "
                       "close/drop_contents on either side at any point: spsc_no_race, spsc_no_unwritten_slot (also no overwrite of an "
                       "undelivered slot), spsc_fifo_exactly_once, spsc_undelivered_items_in_slots; the SC-memory statements are the "
                       "special case spsc_sc_all. no_lost_wakeup / no_lost_wakeup_any_rechecks: the check;register;check(+) vs "
                       "write;wake handshake over the same machine, for ANY ordering of the condition accesses and ANY notifier program "
                       "that wakes after its write, with AtomicWaker ASSUMED to be a linearizable AcqRel RMW register. Counterexample "
                       "theorems show the orderings matter (Relaxed tail store / tail load / head store reach a racy slot access) and that "
                       "register-after-check or a close without wake lose a wake-up. Tied to the code by the SyncOrderings bridge "
                       "(Ordering of every atomic op of state.rs/cursor.rs/worker.rs/atomic_waker.rs + order of the load/wake/register "
                       "calls, re-read from the source on every run), by D (the same step programs run single-threaded vs the real "
                       "channel), and supported by loom on the real code (bounded; never counted as a proof obligation). A broken bridge "
                       "triggers a bounded BFS of the RA machine / exhaustive search of the handshake with the orderings and call order "
                       "NOW in the source; a found schedule is the failing input. Not modelled: SC fences/consume/OOTA, the data path of "
                       "sync/cursor.rs, socket/ring.rs and wakeup_queue.rs (handshake + orderings only), allocation. OBSERVATION (outside "
                       "the property text, see notes): State::close touches the header after open.swap and can race with the peer's "
                       "drop_contents/dealloc.")
    step_extract(ctx, ["sync_orderings", "socket_task"])
    lean_ok = step_lean(ctx, PROP_MODULES, BRIDGES)
    ok, out = cargo_build("vh-core")
    if not ok:
        ctx.oblige("build", "vh-core builds against /repo's working tree", False, out)
    if not lean_ok:
        ctx.escalated = True     # a proof obligation broke: look for a concrete failing schedule / input
        model_search(ctx)
    socket_task_search(ctx)
    if ok:
        if os.path.exists(DRIVER):
            step_diff(ctx, "vh-core", "spsc", "spsc", tier_n(ctx, 3000, 200000), lean_comp="spsc-seq")
        else:
            ctx.oblige("correspond", "D:vh-core/spsc: lean driver missing, differential run not possible", False, "")
    run_loom(ctx)
    header_observation(ctx)


def socket_task_search(ctx):
    """run the socket-task model with the shape read from the source NOW (Generated/SocketTask.lean) on every event
    sequence of one poll call up to length 4: a sequence on which a release is not followed by a wake before the
    call returns is the failing history (with the pinned shape the theorem says there is none)"""
    import itertools
    import re as _re
    gen = os.path.join(LEAN_DIR, "QuicModel", "Generated", "SocketTask.lean")
    if not (os.path.exists(DRIVER) and os.path.exists(gen)):
        return
    text = open(gen).read()
    evs = ["ready", "io0", "io3", "pending", "blocked"]
    seqs = [list(q) for n in range(1, 5) for q in itertools.product(evs, repeat=n) if q[-1] in ("pending", "blocked")
            and not any(e in ("pending", "blocked") for e in q[:-1])]
    for task in ("tx", "rx"):
        m1 = _re.search(rf"def {task}WakeInPendingArm : Bool := (true|false)", text)
        m2 = _re.search(rf"def {task}WakeAfterLoop : Bool := (true|false)", text)
        if not (m1 and m2):
            continue
        a, b = int(m1.group(1) == "true"), int(m2.group(1) == "true")
        lines = [f"poll {a} {b} " + " ".join(q) for q in seqs]
        rc, outs, err = run_lines([DRIVER, "socket-task"], lines)
        ctx.evaluations += len(lines)
        lost = [(l, o) for l, o in zip(lines, outs) if o.startswith("ok lost")]
        ctx.oblige("oracle", f"socket task {task}: with the wake sites now in the source no event sequence of one poll call (<= 4 events, "
                   f"{len(lines)} sequences) returns with released entries and no wake", not lost or not ctx.violation(
                       f"socket-task:lost-wakeup:{task}",
                       f"task/{task}.rs: shape (wake in Pending arm = {bool(a)}, wake after loop = {bool(b)}): `{lost[0][0]}` -> `{lost[0][1]}`: "
                       "entries are released to the endpoint and the call returns without waking it",
                       {"kind": "model-history", "model_component": "socket-task", "ops": [lost[0][0]], "answer": lost[0][1]}, found_input=True),
                   lost[0][0] if lost else "")
        if lost:
            ctx.obligations[-1]["explained"] = True


def header_observation(ctx):
    """not a violation of the property text (slots / order / wake-ups): reported as an observation"""
    if not os.path.exists(DRIVER):
        return
    try:
        rc, outs, err = run_lines([DRIVER, "spsc-ra-search"], ["search-uaf 2 20000"], timeout=1800)
    except subprocess.TimeoutExpired:
        return
    ans = outs[0] if outs else ""
    ctx.extra["model_observations"] = {"spsc-ra-search search-uaf 2 20000": ans}
    if ans.startswith("ok use-after-free"):
        ctx.notes.append(
            "OBSERVATION (not part of the property text; theorem close_wake_after_free_counterexample, "
            "spsc_only_failure_is_header_use_after_free): quic/s2n-quic-core/src/sync/spsc/state.rs:366-372 `State::close` performs "
            "`self.open.swap(false, SeqCst)` and THEN `self.receiver.wake()` / `self.sender.wake()` on the AtomicWaker that lives in the "
            "heap `Header`; if the peer swaps (was_open=false) and runs `drop_contents` (state.rs:472 `self.header.as_mut()`, :480 "
            "`dealloc`) in between, that wake uses the header concurrently with / after its deallocation. Model schedule: "
            + ans[len("ok use-after-free "):] + ". Witnessed on the REAL code with miri (hooks/spsc_close_miri: two threads dropping "
            "Sender and Receiver; `cargo +nightly miri run` with -Zmiri-many-seeds=0..48 -Zmiri-preemption-rate=0.3 reports "
            "`Undefined Behavior: Data race ... retag read (drop(send)) vs retag write of Header in drop_contents (state.rs:472)` for many "
            "of the seeds, e.g. 34, 36, 39, 41-43, 45-47). loom cannot see it (the header is allocated with alloc::alloc, not loom-tracked).")


# ---------------------------------------------------------------------------------------
# bounded search for a bad schedule in the Lean RA model (uses the re-extracted orderings)

def model_search(ctx):
    failed = [o["name"] for o in ctx.obligations if o["kind"] in ("bridge", "extract") and not o["ok"]]
    res = {}
    ctx.extra["model_search"] = res
    if not os.path.exists(DRIVER):
        res["error"] = "lean driver not built"
        return
    bound = "20000"
    for comp, line in (("spsc-ra-search", f"search 2 {bound}"), ("waker-search", f"search {bound}")):
        try:
            rc, outs, err = run_lines([DRIVER, comp], [line], timeout=3600)
        except subprocess.TimeoutExpired:
            res[comp] = "timeout"
            continue
        ctx.evaluations += 1
        ans = outs[0] if outs else f"(no answer, rc={rc}) {err[-300:]}"
        res[comp] = ans
        t = ans.split(" ", 2)
        if len(t) >= 2 and t[0] == "ok" and t[1] in ("race", "unwritten", "overwrite", "lost-wakeup"):
            kind = t[1]
            schedule = t[2] if len(t) > 2 else ""
            ctx.violation(f"sync:model:{kind}",
                          f"with the orderings / call order now in the source the Lean RA model reaches a `{kind}` state; "
                          f"schedule: {schedule}  (driver: {comp} `{line}`; failed: {', '.join(failed)})",
                          {"kind": "model-schedule", "model_component": comp, "query": line, "schedule": schedule,
                           "failed_bridge": failed, "generated": ctx.extra.get("generated")},
                          found_input=True)
        elif not (len(t) >= 2 and t[0] == "ok" and t[1] == "none-within-bound"):
            ctx.notes.append(f"{comp}: unexpected answer `{ans[:200]}`")


# ---------------------------------------------------------------------------------------
# loom: bounded model checking of the real code (support)

def loom_env(ctx):
    flags = "--cfg s2n_internal_dev --cfg loom"
    if os.path.exists(VERIF_LOOM_FILE):
        flags += " --cfg aws_s2n_quic_verif"      # the add-only scenarios of hooks/sync_loom_verif.rs
    pre = "3" if ctx.tier == "thorough" else "2"
    return {"RUSTFLAGS": flags, "CARGO_TARGET_DIR": LOOM_TARGET, "LOOM_MAX_PREEMPTIONS": pre,
            "LOOM_LOG": "loom::model=info", "CARGO_NET_OFFLINE": "true"}


def loom_build(env):
    """-> (ok, test executable or None, output)"""
    with Lock("cargo-loom"):
        rc, out = sh(["cargo", "test", "-p", "s2n-quic-core", "--offline", "--lib", "--no-run", "--message-format=json"],
                     cwd=REPO, env=env, timeout=LOOM_BUILD_TIMEOUT)
    exe = None
    rendered = []
    for line in out.splitlines():
        if not line.startswith("{"):
            rendered.append(line)
            continue
        try:
            j = json.loads(line)
        except ValueError:
            continue
        if j.get("reason") == "compiler-artifact" and j.get("profile", {}).get("test") and j.get("executable") \
                and j.get("target", {}).get("name", "").replace("-", "_") == "s2n_quic_core":
            exe = j["executable"]
        elif j.get("reason") == "compiler-message" and j.get("message", {}).get("level") == "error":
            rendered.append(j["message"].get("rendered") or j["message"].get("message", ""))
    return rc == 0 and exe is not None, exe, "\n".join(rendered)


def loom_one(exe, name, env, timeout):
    e = dict(os.environ)
    e.update(env)
    e["RUST_BACKTRACE"] = "0"
    t0 = time.time()
    try:
        p = subprocess.run([exe, "--exact", name, "--show-output", "--test-threads", "1"], cwd=CRATE_DIR, env=e,
                           stdout=subprocess.PIPE, stderr=subprocess.STDOUT, text=True, timeout=timeout)
        out, rc = ANSI.sub("", p.stdout), p.returncode
    except subprocess.TimeoutExpired as ex:
        o = ex.stdout or ""
        out, rc = ANSI.sub("", o if isinstance(o, str) else o.decode("utf-8", "replace")), None
    wall = round(time.time() - t0, 2)
    m = re.search(r"Completed in (\d+) iterations", out)
    r = {"test": name, "wall_s": wall, "executions": int(m.group(1)) if m else None}
    if rc is None:
        r["result"] = "timeout"
    elif re.search(r"^test " + re.escape(name) + r" \.\.\. ok$", out, re.M) and rc == 0:
        r["result"] = "ok"
    elif re.search(r"^test " + re.escape(name) + r" \.\.\. ignored", out, re.M) and rc == 0:
        r["result"] = "ignored"
    else:
        r["result"] = "FAILED"
    if r["result"] in ("FAILED", "timeout"):
        # the panic message / loom's deadlock report is what matters
        keep = []
        for l in out.splitlines():
            if not l.strip() or "Completed in" in l or "Iteration" in l or l.startswith(("running ", "stack backtrace")):
                continue
            if re.match(r"\s+\d+:\s+(0x[0-9a-f]+ - )?\S", l) or re.match(r"\s+at \S+:\d+", l) or "RUST_BACKTRACE" in l:
                continue          # backtrace frames of the abort-on-double-panic path
            if l not in keep:
                keep.append(l)
        r["output"] = "\n".join(keep)[:1800]
    return r


def run_loom(ctx):
    env = loom_env(ctx)
    info = {"LOOM_MAX_PREEMPTIONS": int(env["LOOM_MAX_PREEMPTIONS"]), "RUSTFLAGS": env["RUSTFLAGS"], "target_dir": LOOM_TARGET,
            "verif_scenarios": "aws_s2n_quic_verif" in env["RUSTFLAGS"], "tests": [],
            "note": "support only: bounded model checking of the real code, not counted as a discharged proof obligation"}
    ctx.extra["loom"] = info
    t0 = time.time()
    try:
        ok, exe, out = loom_build(env)
    except subprocess.TimeoutExpired:
        ok, exe, out = False, None, "build timed out"
    info["build_wall_s"] = round(time.time() - t0, 2)
    if not ok:
        ctx.oblige("build", "s2n-quic-core builds with --cfg loom", False, out)
        return
    rc, listing = sh([exe, "--list"], cwd=CRATE_DIR, env=env, timeout=600)
    names = [m.group(1) for m in re.finditer(r"^(\S+): test$", listing, re.M)]
    # the bolero tests of sync:: (model, oracle_test, ...) touch loom atomics outside loom::model under --cfg loom;
    # like the crate's CI (`cargo test loom`) only the scenarios named *loom* are run
    names = sorted(n for n in names if n.startswith("sync::") and "loom" in n)
    info["selected"] = names
    base_cmd = (f"cd {REPO} && LOOM_MAX_PREEMPTIONS={env['LOOM_MAX_PREEMPTIONS']} RUSTFLAGS=\"{env['RUSTFLAGS']}\" "
                f"CARGO_TARGET_DIR={LOOM_TARGET} cargo test -p s2n-quic-core --offline --lib -- --exact ")
    info["cmd"] = base_cmd + " ".join(names) + f" --test-threads {LOOM_WORKERS}"
    if not names:
        ctx.oblige("loom", "crate loom scenarios pass (bounded model checking; support only)", False, "no sync::*loom* test found:\n" + listing[-800:])
        return
    timeout = LOOM_TEST_TIMEOUT["thorough" if ctx.tier == "thorough" else "quick"]
    t1 = time.time()
    with concurrent.futures.ThreadPoolExecutor(max_workers=LOOM_WORKERS) as ex:
        results = list(ex.map(lambda n: loom_one(exe, n, env, timeout), names))
    info["wall_s"] = round(time.time() - t1, 2)
    info["tests"] = [{k: r[k] for k in ("test", "result", "executions", "wall_s")} for r in results]
    bad = [r for r in results if r["result"] not in ("ok", "ignored")]
    for r in bad:
        if r["result"] == "FAILED":
            ctx.violation(f"sync:loom:{r['test']}", f"loom scenario {r['test']} fails (LOOM_MAX_PREEMPTIONS={env['LOOM_MAX_PREEMPTIONS']}, "
                          f"after {r['executions'] or '?'} executions): " + r.get("output", "")[-900:],
                          {"kind": "loom", "test": r["test"], "cmd": base_cmd + r["test"], "output": r.get("output", ""),
                           "env": {k: env[k] for k in ("RUSTFLAGS", "LOOM_MAX_PREEMPTIONS")}}, found_input=True)
    detail = "; ".join(f"{r['test']}: {r['result']}" + (f" after {timeout}s" if r["result"] == "timeout" else "") for r in bad)
    info["passed"] = not bad
    if not bad:
        # support only: a passing bounded exploration is NOT counted as a discharged proof obligation
        ctx.notes.append(f"loom (support, not counted): {len(names)} scenarios of the real code pass with "
                         f"LOOM_MAX_PREEMPTIONS={env['LOOM_MAX_PREEMPTIONS']} ({sum(r['executions'] or 0 for r in results)} executions)")
        return
    ctx.oblige("loom", f"crate loom scenarios pass (bounded model checking of the real code) [{len(names)} scenarios, "
               f"LOOM_MAX_PREEMPTIONS={env['LOOM_MAX_PREEMPTIONS']}]", False, detail + "\n" + "\n".join(r.get("output", "") for r in bad)[-1500:])
    if all(r["result"] == "FAILED" for r in bad):
        ctx.obligations[-1]["explained"] = True     # each failure has its own replayable violation
