"""C13 part: the clauses that involve more than one CONNECTION of an endpoint or more than one PATH of a connection.

* routing between connections — "every datagram addressed to any of its unretired IDs is delivered to the connection the ID
  was issued for": `lookup_internal_connection_id` consults the map of issued ids before the map of client-chosen
  original DCIDs. Lean: `Conn.IdMapper` + Props/C13IdMapper.lean (an issued id is routed to its owner whatever the
  initial-id map holds; the swapped order is a proved counterexample); tie G: tools/extractors/cid_mapper.py +
  Bridge/CidMapper.lean pin the order of the two lookups in the source; tie T: family `cid2` (a second client whose
  original DCID is an id the server issues / has issued to the first connection), oracle `o_c13_shared`.
* peer ids of known paths — the client toggles between two addresses while its ids are retired (family `cidmig`); from
  `o_c13`: RETIRE_CONNECTION_ID never travels in a packet addressed to the id it retires. `o_c13_dcid` (no packet at all is
  addressed to an id below a processed Retire Prior To, RFC 9000 §5.1.2) goes beyond the text of C13 and is an OBSERVER
  only: its hits are counted in the evidence (see `_observe_dcid`)."""
import e2e_c13
import e2e_c13mig
import e2e_props
from vlib import step_extract, step_lean

PROP_MODULES = ["QuicProofs.Props.C13IdMapper", "QuicProofs.Props.C13PathIds"]
BRIDGES = ["QuicProofs.Bridge.CidMapper"]


def _observe_dcid(ctx):
    """`o_c13_dcid` as an OBSERVER: packets addressed to a peer id below a Retire Prior To the sender has already processed
    (RFC 9000 5.1.2 "MUST stop using") are counted in the evidence, not reported: the text of C13 only forbids a
    RETIRE_CONNECTION_ID frame inside a packet addressed with the id it retires (rule `retire-in-own-packet` of o_c13).
    On the unchanged tree the counter is non-zero for path-validation probes of NON-active paths
    (path::Manager::on_new_connection_id replaces the retired id of the active path only; Lean:
    inactive_path_probe_retired_id_counterexample) and zero for the active path (active_path_packets_unretired)."""
    def o_c13_dcid_observer(tr):
        for sig, _ in e2e_c13mig.o_c13_dcid(tr):
            ctx.count("c13:observed:" + sig.replace("e2e:c13:", ""))
        return []
    return o_c13_dcid_observer


def run(ctx):
    dcid = _observe_dcid(ctx)
    ctx.assumptions += [
        "tools/extractors/cid_mapper.py (token-level: order of `local_id_map.get` / `initial_id_map.get` inside lookup_internal_connection_id, "
        "the write-back of the consumed peer id in path::Manager::update_active_path)",
        "family cid2: the second client's original DCID is its own choice (the harness's random provider hands the chosen 8 bytes to "
        "endpoint/mod.rs `public_random_fill`); the server's ids come from the harness's deterministic connection-id provider, whose output "
        "sequence the generator recomputes (tools/e2e_c13mig.py generated_cids)",
        "o_c13_dcid reads the destination id of a packet from the datagram on the simulated wire (first packet of a datagram; FIFO correlation "
        "of packet_sent events and wire lines; ambiguous cases are skipped)",
    ]
    step_extract(ctx, ["cid_mapper"])
    if not step_lean(ctx, PROP_MODULES, BRIDGES):
        ctx.escalated = True
    # ---- two connections on one server -----------------------------------------------------------------------
    traces = e2e_props.run_family(ctx, "cid2", [e2e_c13mig.o_c13_shared], 18, 360, nontrivial=e2e_c13mig.nontrivial_cid2,
                                  name="T:cid2: datagrams of connection 1 addressed to its unretired ids are processed by connection 1 while a second client "
                                       "uses one of those ids as original DCID (o_c13_shared, incl. all o_c13 rules on connection 1)")
    hit = 0
    for tr in traces:
        st = e2e_c13mig.collision_stats(tr)
        for k, v in st.items():
            if v:
                ctx.count("c13:cid2:" + k)
        hit += 1 if st["in-initial-window"] else 0
    if traces:
        ctx.oblige("coverage", f"cid2: in at least 3 runs connection 1 sends datagrams addressed to the second client's original DCID while the server's "
                   f"initial-id map holds it ({hit} of {len(traces)})", hit >= 3, f"{hit} runs")
    # ---- migrations back to a known path whose peer id was retired ---------------------------------------------
    traces = e2e_props.run_family(ctx, "cidmig", [e2e_c13.o_c13, dcid], 18, 360, nontrivial=e2e_c13mig.nontrivial_cidmig,
                                  name="T:cidmig: RETIRE_CONNECTION_ID never inside a packet addressed to the retired id and all other o_c13 rules (client toggling "
                                       "between two addresses; packets addressed to an id below a processed Retire Prior To are counted as an observation)")
    hit = 0
    for tr in traces:
        st = e2e_c13mig.migration_stats(tr)
        for k, v in st.items():
            if v:
                ctx.count("c13:cidmig:runs-with-" + k)
                ctx.count("c13:cidmig:total-" + k, v)
        hit += 1 if st["known-path-retired"] else 0
    if traces:
        ctx.oblige("coverage", f"cidmig: in at least 6 runs the server returns to a known path whose peer id was retired meanwhile "
                   f"(update_active_path consumes a fresh id: {hit} of {len(traces)})", hit >= 6, f"{hit} runs")
    # ---- the same rule on the scenarios of the single-connection families (traces are shared with C13_e2e) -------
    e2e_props.run_family(ctx, "cid", [dcid], 36, 200, nontrivial=e2e_c13.nontrivial,
                         name="T:cid: observation pass (packets addressed to a peer id below a processed Retire Prior To are counted) on the lifetime / rotation / rebinding scenarios")
