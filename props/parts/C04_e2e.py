"""C04 part: peer violations rejected with the right transport error, nothing offending delivered, advertised
credit ≤ consumed + configured window.

  G  tools/extractors/frame_table.py -> QuicModel/Generated/FrameTable.lean, bridged to the pinned facts of the
     model (frames per space, comparison + error constant of every receive-side check, advertised-value formulas)
  Lean  QuicProofs.Props.C04RecvFlow (table theorem, credit bound for all histories, Table 3)
  T  family `attack`: every catalogue entry (harness/vh-e2e/src/attacks.rs) from both roles / in the three
     packet-number spaces on REAL endpoints; oracle tools/e2e_c04.py (RFC 9000 error table written from the RFC);
     the Lean model replays every packet the victim processed and must take the same decision (trace acceptor);
     credit oracle on the non-adversarial families `flowctl` and `mixed`.
"""
import os

import e2e_c04
import e2e_props
from vlib import *

PROP_MODULES = ["QuicProofs.Props.C04RecvFlow"]
BRIDGES = ["QuicProofs.Bridge.FrameTable"]


def run(ctx):
    ctx.rule = ("an adversarial scenario is non-trivial when the victim really processed the rewritten packet; a "
                "non-adversarial one when it completed and at least one MAX_DATA/MAX_STREAM_DATA/MAX_STREAMS frame was checked")
    ctx.assumptions += ["tie T samples real client+server runs on the deterministic IO provider; it validates the model/oracles, it is not the proof",
                        "tie G: regex extraction (tools/extractors/frame_table.py) of handler sets, comparisons and error constants",
                        "the Lean model does not carry the send half of streams, connection-id registries (only the two RETIRE_CONNECTION_ID checks) and stream removal"]
    step_extract(ctx, ["frame_table"])
    lean_ok = step_lean(ctx, PROP_MODULES, BRIDGES)
    if not lean_ok and not os.environ.get("VERIF_NO_ESCALATE"):
        ctx.escalated = True      # a proof obligation / bridge broke: search deeper for a concrete failing input
    n_cases = len(e2e_c04.CASES)

    def nontrivial_attack(tr, s):
        return e2e_c04.attack_outcome(tr) not in ("no-attack", "not-processed")

    def post(traces):
        for tr in traces:
            ctx.count("e2e:attack:outcome:" + e2e_c04.attack_outcome(tr).split(":")[0])
        e2e_c04.model_conformance(ctx, traces)

    e2e_props.run_family(ctx, "attack", [e2e_c04.o_c04], n_cases, 8 * n_cases, nontrivial=nontrivial_attack, post=post)

    def nontrivial_credit(tr, s):
        return s["end"] == "ok" and e2e_c04.credit_frames(tr) > 0

    e2e_props.run_family(ctx, "flowctl", [e2e_c04.o_c04_credit], 32, 1000, nontrivial=nontrivial_credit)
    e2e_props.run_family(ctx, "mixed", [e2e_c04.o_c04_credit], 32, 1000, nontrivial=nontrivial_credit)
