"""C09 part (tie T): every loss declaration of a live connection is checked against RFC 9002 §6.1 (a later packet acknowledged; packet
or time threshold), each packet resolved once, bytes_in_flight consistent with the unresolved 1-RTT packets."""
import e2e
import e2e_props


def run(ctx):
    ctx.assumptions.append('tie T samples real client+server runs; RTT snapshots are taken from the recovery_metrics events around each loss declaration')
    e2e_props.run_family(ctx, "mixed", [e2e.o_c09], 40, 1200)
    e2e_props.run_family(ctx, "forgery", [e2e.o_c09], 16, 500)
