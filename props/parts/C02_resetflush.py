"""C02 part (Lean + tie G): the stream write waiter on the reset paths, including the `reset` + `flush` request of the
transport-level request API — theorems of lean/QuicProofs/Props/C02ResetFlush.lean over `Quic.Conn.Wakers.WriteWaiter`
(+ `QuicModel/Conn/WakersResetFlush.lean`), tied to /repo's text by tools/extractors/tx_wake.py (wake guards of `on_internal_reset` /
`on_stop_sending` translated on every run) and lean/QuicProofs/Bridge/TxWake.lean.  When the bridge breaks, the translated guards
are evaluated on the histories of the theorem (writer parked by reset+flush, then a releasing event) to produce the failing one."""
from vlib import *

PROP_MODULES = ["QuicProofs.Props.C02ResetFlush"]
BRIDGES = ["QuicProofs.Bridge.TxWake"]


def run(ctx):
    ctx.assumptions += [
        "C02ResetFlush: hand-written model of send_stream.rs poll_request (reset branch l.779-803), init_reset, on_packet_ack, on_stop_sending, "
        "on_internal_reset, on_max_stream_data, wake; tie G: tools/extractors/tx_wake.py (2 translated wake guards + 6 pinned statement shapes)",
        "reset+flush after the stream has finished parks until the connection closes (reset_flush_after_finish_parks_counterexample): observation about "
        "the crate-internal request API, not replayed on the real code, not reachable through the public stream API",
    ]
    step_extract(ctx, ["tx_wake"])
    ok = step_lean(ctx, PROP_MODULES, BRIDGES, extra_targets=())
    sys.path.insert(0, os.path.join(VERIF, "tools"))
    from extractors import tx_wake
    fns = tx_wake.python_twin(REPO)
    ctx.extra["tx_wake_translated"] = fns
    ctx.evaluations += 1
    # twin of the theorem's histories: the writer sits in ResetSent with a flush waiter, init_reset answers ResetNotNecessary (initiated = False)
    if "internalResetWakes" in fns and not eval(fns["internalResetWakes"])(False):
        hist = ["poll_request reset=Some(code) flush=true (with task context) on an open stream with queued data -> ResetSent, write_waiter = Some((waker, true))",
                "RESET_STREAM not acknowledged yet (lost / in flight)",
                "connection closes (idle timeout, peer close, transport error): on_internal_reset -> init_reset = ResetNotNecessary -> no wake"]
        ctx.violation("txwake:reset-flush-not-released-by-close",
                      "stream write waiter: a writer parked by reset+flush (waiting for the RESET_STREAM acknowledgement) is not woken when the connection ends; "
                      "no acknowledgement can arrive afterwards, the task stays parked with no timer and no pending wake-up. History: " + " ; ".join(hist),
                      {"kind": "model-history", "history": hist, "translated": fns,
                       "reproduce_on_code": "in-crate unit test (stream/send_stream/tests.rs style): setup_send_only_test_env, poll_request(reset + flush) with the "
                                            "counting waker, on_internal_reset(connection error), assert wake counter == 1"},
                      found_input=True)
    elif "stopSendingWakes" in fns and not eval(fns["stopSendingWakes"])(True):
        hist = ["poll_send with a full send buffer -> write_waiter = Some((waker, false))",
                "STOP_SENDING arrives: init_reset = ResetInitiated, the stream moves to ResetSent -> no wake",
                "no later event wakes a should_flush = false waiter in ResetSent (on_packet_ack wakes on the reset acknowledgement only)"]
        ctx.violation("txwake:stop-sending-no-wake",
                      "stream write waiter: a writer blocked on buffer space is not woken when STOP_SENDING resets the stream. History: " + " ; ".join(hist),
                      {"kind": "model-history", "history": hist, "translated": fns}, found_input=True)
    # other broken obligations are reported by Ctx.finish (no-failing-input-found)
