"""C10 part (tie T): congestion window never below the controller's minimum on live connections (both controllers)."""
import e2e
import e2e_props


def run(ctx):
    ctx.assumptions.append('tie T samples real client+server runs; window values are read from recovery_metrics events')
    e2e_props.run_family(ctx, "mixed", [e2e.o_c10], 40, 1200)
