"""C18 part: "a packet is acted upon only if its authentication tag verifies" at the dc STREAM receiver
(dc/s2n-quic-dc/src/stream/recv/state.rs `on_stream_packet_impl`): every error path that would reset the stream — the
reassembly buffer rejecting the packet, the packet lying beyond the flow-control window — first authenticates the packet
(`packet.read_chunk(..)?`) and returns the AEAD error for a forged one. The receiver model (`Dc.StreamRecv`, theorems of
C20DcStream: reads stay a prefix of what was written for any mix of authentic and forged packets) and the shape of those two
statements are tied by the C20 extractor / bridge, which this part re-checks under C18."""
from vlib import step_extract, step_lean

PROP_MODULES = ["QuicProofs.Props.C20DcStream"]
BRIDGES = ["QuicProofs.Bridge.DcStream"]


def run(ctx):
    ctx.assumptions.append("C18_streamauth: tools/extractors/dc_stream.py (statement shapes of the dc stream receiver); no forged packets are injected "
                           "into the dc stream simulation, so a broken authentication order is reported through the bridge only")
    step_extract(ctx, ["dc_stream"])
    step_lean(ctx, PROP_MODULES, BRIDGES)
