"""C02 part `timer`: the `Timer` / `Provider` / `Query` mechanism by which a connection finds the EARLIEST armed
timer of all its components (quic/s2n-quic-core/src/time/timer.rs, `Timestamp::has_elapsed`) and the `Pacer`
(recovery/pacing.rs; the pacer half is also relevant to C10: its departure time is what `transmission_constraint`
/ the send gate waits for)."""
from vlib import *

PROP_MODULES = ["QuicProofs.Props.C02Timer"]
BRIDGES = ["QuicProofs.Bridge.Timer"]


def run(ctx):
    ctx.assumptions += [
        "timer part: Lean theorems (lean/QuicProofs/Props/C02Timer.lean) are unbounded over every list of timers / every op history of the "
        "TRANSCRIBED model lean/QuicModel/Time/Timer.lean; tie G (tools/extractors/timer.py) regenerates has_elapsed, the Query-for-Option<Timestamp> "
        "match arms, poll_expiration's shape and the pacer constants / update expression from /repo's current text and the bridge re-proves them equal to the model; "
        "tie D runs the real Timer bank (Provider impls for Vec-like component, tuple, Option, &) and the real Pacer against the Lean driver",
        "the crate-private Pacer is driven through the CubicCongestionController that owns it (slow start until one `ecn`; the f32 window after the "
        "multiplicative decrease is predicted by the generator and echoed by the real controller, a wrong prediction shows as a D disagreement); "
        "congestion_window = 0 (debug_assert in Pacer::interval) is unreachable through that API and only covered by the Lean statement",
        "a component that re-arms a timer inside its on_timeout (PTO, idle) is outside this part: statement 3 is about polling, not about the handlers; "
        "pacer half is relevant to C10 (pacing gate)",
    ]
    step_extract(ctx, ["timer"])
    lean_ok = step_lean(ctx, PROP_MODULES, BRIDGES)
    ok, out = cargo_build("vh-core")
    if not ok:
        ctx.oblige("build", "vh-core builds against /repo's working tree", False, out)
        return
    if not lean_ok:
        ctx.escalated = True
    step_diff(ctx, "vh-core", "timer", "timer", tier_n(ctx, 6000, 300000))
    step_diff(ctx, "vh-core", "pacer", "pacer", tier_n(ctx, 4000, 200000))
