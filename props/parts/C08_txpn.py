"""C08 part: packet numbers on the wire strictly increase within a space (TxPacketNumbers + the
packet-number choice of the packet spaces' on_transmit). Lean theorems over all op sequences; the
Rust type is private to s2n-quic-transport, so the differential tie needs the in-crate hook
(component `txpn`, generator tools/gen/txpn.py) or e2e traces — until that exists this part only
checks the theorems and replays generated histories through the model's own oracle."""
from vlib import *

PROP_MODULES = ["QuicProofs.Props.C08TxPn"]


def run(ctx):
    ctx.assumptions += ["txpn: Conn.TxPn is a hand transcription of space/tx_packet_numbers.rs and of the packet-number choice in "
                        "space/{application,handshake,initial}.rs on_transmit; its tie to the code (in-crate hook D / e2e T) is not part of this part"]
    lean_ok = step_lean(ctx, PROP_MODULES, [])
    if not lean_ok:
        return
    import gen.txpn as g
    lines = g.gen(ctx.rng("txpn"), tier_n(ctx, 2000, 100000), ctx.tier)
    rc, out, err = run_lines([DRIVER, "txpn"], lines)
    bad = g.oracle(lines, out) if len(out) == len(lines) else [(0, "txpn:driver", err[-500:])]
    ctx.oblige("model-selfcheck", f"Lean txpn model satisfies its python oracle on {len(lines)} generated ops (model only, not the implementation)",
               not bad, "; ".join(m for _, _, m in bad[:5]))
    ctx.count("txpn:model_ops", len(lines))
