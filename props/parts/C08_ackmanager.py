"""C08 part (ACK half): the AckManager model (QuicModel/Conn/AckManager.lean) — theorems over all operation
histories (soundness, frame well-formedness, no panic, promptness invariant under the two hypotheses the two
proved counterexamples violate, timer bound, should_transmit table), the soundness theorem of the trace
acceptor, and tie G (tools/extractors/ack_manager.py + QuicProofs/Bridge/AckManager.lean)."""
from vlib import *

PROP_MODULES = ["QuicProofs.Props.C08AckManager", "QuicProofs.Props.C08AckTrace"]
BRIDGES = ["QuicProofs.Bridge.AckManager"]

# the two Lean counterexample histories as acceptor traces (model-level replay through the linked driver: the
# driver executes the same `accept` function the theorems are about)
WITNESS_EVICTION = ["cfg 25000 10"] + [f"rx {1000 * i} {2 * i} 1 0 0" for i in range(11)] + [
    "tx 10000 0 0 20-20,18-18,16-16,14-14,12-12,10-10,8-8,6-6,4-4,2-2 n"]
WITNESS_EVICTION_BAD = WITNESS_EVICTION[:-1] + ["tx 10000 0 0 20-20,18-18,16-16,14-14,12-12,10-10,8-8,6-6,4-4,2-2,0-0 n"]
WITNESS_CUTOFF = ["cfg 25000 10", "rx 0 5 1 0 0", "tx 1000 0 1 5-5 n", "rx 2000 3 1 0 0", "acked 0-0", "tx 3000 1 1 - n",
                  "rx 4000 6 1 0 0", "tx 4000 2 1 6-6 n"]


def run(ctx):
    ctx.assumptions += [
        "ack manager: Conn.AckManager is a hand transcription of s2n-quic-transport/src/ack/{ack_manager,ack_transmission_state}.rs and "
        "s2n-quic-core/src/ack/{transmission,settings}.rs (private to the transport crate); it is tied to the code by G (34 extracted "
        "constants / comparison shapes / statement orders, bridged) and by T (part C08_acktrace: real endpoints replayed through the model)",
        "ack manager: timestamps and durations are unbounded naturals (Timestamp + Duration overflow not modelled); the WriteContext "
        "(constraint, mode, whether frames fit, ack elicitation of the packet) is an unconstrained input of each transmit operation",
        "promptness: `TimeOk` (time does not run backwards) is an environment assumption; whether forced transmission interest leads to a "
        "datagram is outside the model (observed by T only; ACK-only packets are paced by the sender's pacer)",
    ]
    step_extract(ctx, ["ack_manager"])
    lean_ok = step_lean(ctx, PROP_MODULES, BRIDGES)
    if not lean_ok:
        ctx.escalated = True
    if not os.path.exists(DRIVER):
        return
    rc, out, err = run_lines([DRIVER, "ack-trace"], WITNESS_EVICTION)
    ctx.evaluations += len(WITNESS_EVICTION)
    ctx.oblige("witness", "ack_evicted_never_acked_counterexample on the linked model: after 11 isolated packets the ACK frame without packet 0 is "
               "the admissible one (model-level replay; the real AckManager is private — its replay needs the in-crate hook)",
               len(out) == len(WITNESS_EVICTION) and all(o.startswith("ok") for o in out) and "exact=1" in out[-1], f"{out[-2:]} {err[-300:]}")
    rc, out, err = run_lines([DRIVER, "ack-trace"], WITNESS_EVICTION_BAD)
    ctx.oblige("witness", "… and an ACK frame that still names the evicted packet 0 is rejected (ack-unprocessed)",
               len(out) == len(WITNESS_EVICTION_BAD) and out[-1] == "err ack-unprocessed", f"{out[-1:]}")
    rc, out, err = run_lines([DRIVER, "ack-trace"], WITNESS_CUTOFF)
    ctx.evaluations += len(WITNESS_CUTOFF)
    ctx.oblige("witness", "ack_below_cutoff_never_acked_counterexample on the linked model: after the peer acknowledged the packet carrying ACK[5], "
               "the reordered packet 3 is gone — a packet WITHOUT ACK frame is admissible although the state is Active, and the next ACK frame is [6] only "
               "(the real-code witness is the e2e finding e2e:c08:ack-skipped:below-acked-ack-frame, F8)",
               len(out) == len(WITNESS_CUTOFF) and all(o.startswith("ok") for o in out) and "st=A" in out[4] and " n=0" in out[4], f"{out[4:]}")
    ctx.nontrivial.add("ackmgr|witness|eviction")
    ctx.nontrivial.add("ackmgr|witness|cutoff")
