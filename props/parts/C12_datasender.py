"""C12 part (tie D, crate-private code): the REAL `sync::data_sender::DataSender` of s2n-quic-transport — with its real
`Transmissions`, `Buffer` / `Viewer`, interval sets and packet-number map — against the Lean model
`Quic.Stream.DataSender` that the C12 theorems (`frames_consistent`, `retransmission_identical`, `no_data_beyond_final`,
`nothing_after_reset`) are proved about.  `DataSender` is private to the crate, so the run goes through the cfg-guarded
hook recorded in MANIFEST.hooks: `#[cfg(all(test, aws_s2n_quic_verif))] mod verif` in stream/mod.rs includes
/verif/hooks/transport_stream.rs; the harness instantiates the generic sender with a frame writer that counts payload
bytes only and with the model's `simpleFlow` controller — exactly the two abstractions the model makes — so the answers
are compared line by line (frames, sender state, buffered length, in-flight flag, blocked flag, transmission interest).
The oracle evaluates the C12 / C03 statements on the implementation's frames independently of the model."""
from vlib import *


def run(ctx):
    ctx.notes.append("data-sender: in-crate harness through the cfg(aws_s2n_quic_verif) hook; abstractions made real: payload-only "
                     "FrameWriter (MIN_WRITE_SIZE = 32, WRITES_FIN), SimpleFc flow controller; real code exercised: DataSender, "
                     "Transmissions (transmit_set / transmit_interval / transmit_fin / on_ack_signal), Buffer (push / release / "
                     "View), IntervalSet, packet::number::Map, the crate's own check_integrity debug assertions")
    import regen
    regen.main()
    ok, out = incrate_build()
    if not ok:
        ctx.oblige("build", "s2n-quic-transport unit-test binary with the verification hook builds from /repo's working tree", False, out)
        return
    ok, out = lake_build(["driver"])
    if not ok:
        ctx.oblige("build", "lean driver builds", False, out)
        return
    step_diff(ctx, "vh-incrate", "data-sender", "data_sender", tier_n(ctx, 12000, 400000))
