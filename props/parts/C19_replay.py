"""C19 part: dc replay window (receiver::State) and sender key-id counter (sender::State)."""
from vlib import *

PROP_MODULES = ["QuicProofs.Props.C19Replay"]
BRIDGES = ["QuicProofs.Bridge.DcReplay"]


def run(ctx):
    ctx.rule = ("histories of post/pre/min_unseen/snap ops (window-edge distances 895/896/897, huge jumps, the reserved id, "
                "shuffled windows, replays; exhaustive words over {0,1,2,895,896,897,898,MAX-1,MAX} of length 3 (quick) / 6 "
                "(thorough)) and of next/stale/current ops, plus threaded stress ops on one shared State; a case is non-trivial "
                "when the implementation answered ok (id accepted / id issued / snapshot) and distinct when op (and, for the "
                "sender, the issued id) differ")
    ctx.assumptions += [
        "Lean kernel; tools/extractors/dc_replay.py regex extraction; vh-dc harness and python oracles",
        "receiver: post_authentication runs under std::sync::Mutex, so concurrent histories are sequential ones (Mutex assumed correct); bitvec shift_end/fill/get_mut modelled by their documented behaviour",
        "sender: fetch_update/fetch_max are single atomic RMWs on one AtomicU64, totally ordered by its modification order",
        "threaded stress runs sample schedules only; the unbounded claim for all interleavings is the Lean theorem",
    ]
    step_extract(ctx, ["dc_replay"])
    lean_ok = step_lean(ctx, PROP_MODULES, BRIDGES)
    ok, out = cargo_build("vh-dc")
    if not ok:
        ctx.oblige("build", "vh-dc builds against /repo's working tree", False, out)
        return
    if not lean_ok:
        ctx.escalated = True
    step_diff(ctx, "vh-dc", "replay_window", "replay_window", tier_n(ctx, 20000, 150000))
    step_diff(ctx, "vh-dc", "key_ids", "key_ids", tier_n(ctx, 12000, 100000))
    if ctx.tier == "thorough" or ctx.deep:
        ctx.exhaustive = True
        ctx.extra["exhaustive_scope"] = "replay_window: all 9^6 words over {0,1,2,895,896,897,898,MAX-1,MAX} (bounded support, not a proof obligation)"
