"""C02 part (tie D): the open-stream waiters of the locally-initiated stream controller — the REAL `stream::Controller`
(vh-transport, public API) against the Lean model `Conn.Wakers.OpenWaiters`, with tasks that poll whenever they like.
The python oracle is the executable twin of `no_parked_without_wakeup` for these waiters: after every capacity-raising
operation no task may be parked without a pending wake-up while a stream can be opened.  The implementation violates it
(finding C02-F1, Lean: `open_waiter_lost_wakeup_counterexample`); what does hold is `open_waiters_partial`."""
from vlib import *


def run(ctx):
    ctx.notes.append(
        "C02-F1 (lost wake-up, stale waker slot): quic/s2n-quic-transport/src/stream/controller/local_initiated.rs — poll_open_stream l.92-131 "
        "(`open_token.clear()` on Ready leaves the waker in `wakers`; a re-parking task gets a NEW slot at the back, l.103-107) and wake_unblocked "
        "l.168-180 (wakes `min(len, capacity)` slots from the front, stale ones included). History: peer limit 1; open; A parks (token 1); B parks "
        "(token 2); MAX_STREAMS 2 wakes A; B polls first -> Ready; A polls -> parks again (token 3, behind B's stale slot); MAX_STREAMS 3 wakes B's stale "
        "slot only: A parked, one stream available, no timer involved. Proved on the model (open_waiter_lost_wakeup_counterexample), reproduced on the "
        "real stream::Controller by this part and by the in-crate test harness/hooks-draft/open_waiter_lost_wakeup_test.rs")
    import regen
    regen.main()          # registry files (comp/mod.rs, Drivers/All.lean) list the new component
    ok, out = cargo_build("vh-transport")
    if not ok:
        ctx.oblige("build", "vh-transport builds against /repo's working tree", False, out)
        return
    ok, out = lake_build(["driver"])
    if not ok:
        ctx.oblige("build", "lean driver builds", False, out)
        return
    step_diff(ctx, "vh-transport", "open-waiters", "open_waiters", tier_n(ctx, 6000, 300000))
