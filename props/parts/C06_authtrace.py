"""C06 part (tie T, trace acceptor): the receive-side verdicts of real endpoints under forgery / corruption / replay
are exactly what the Lean pipeline model (`Compose.Auth.receive`, with its own duplicate window) computes for the same
sequence of (space, packet number) observations."""
import json

import e2e
import e2e_ops_auth
import e2e_props
from vlib import *


def run(ctx):
    ctx.assumptions.append("auth-trace (tie T): samples real client+server runs on the deterministic IO provider with an adversarial network; "
                           "observations are the public events duplicate_packet / packet_dropped and the rx payload interceptor")
    ok, out = cargo_build("vh-e2e")
    if not ok:
        ctx.oblige("build", "vh-e2e builds against /repo's working tree", False, out)
        return
    okl, out = lake_build(["driver"])
    if not okl:
        ctx.oblige("build", "lean driver builds", False, out)
        return
    n = tier_n(ctx, 24, 400)
    rng = ctx.rng("e2e/authtrace")
    scen = [e2e_props.FAMILIES["forgery"](rng, i) for i in range(n)]
    traces = e2e.run_many(scen, workers=int(os.environ.get("VERIF_E2E_WORKERS", "6")))
    bad = []
    kinds = {}
    total_ops = 0
    accepted_traces = 0
    for tr in traces:
        s = e2e_props.summarize(tr)
        ctx.count(f"authtrace:end:{s['end']}")
        fine = True
        for ep in ("c", "s"):
            ops = e2e_ops_auth.ops_for(tr, ep)
            if not ops:
                continue
            rc, outs, err = run_lines([DRIVER, "auth-trace"], ops)
            total_ops += len(ops)
            ctx.evaluations += len(ops)
            for op in ops:
                k = op.split()[-1] if op != "reset" else "(next-connection)"
                kinds[k] = kinds.get(k, 0) + 1
            if rc != 0 or len(outs) != len(ops):
                bad.append((tr, ep, "driver", f"lean driver failed rc={rc} {err[-200:]}"))
                fine = False
                continue
            for i, (op, o) in enumerate(zip(ops, outs)):
                if op == "reset":          # next connection of this endpoint (e.g. one created by a replayed Initial)
                    continue
                if o != "ok":
                    bad.append((tr, ep, op, f"endpoint {ep}: observation #{i} `{op}` but the model's pipeline says `{o}` (ops so far: {ops[max(0, i - 6):i + 1]})"))
                    fine = False
                    break
        if fine:
            accepted_traces += 1
            if s["end"] == "ok" and any(w.action != "deliver" for w in tr.of("wire")):
                ctx.nontrivial.add("authtrace|" + json.dumps(tr.params, sort_keys=True))
    ctx.traces_validated += len(traces)
    ctx.extra["authtrace_observations"] = dict(sorted(kinds.items()))
    ctx.extra["authtrace_traces_accepted"] = f"{accepted_traces}/{len(traces)}"
    for k, v in kinds.items():
        ctx.count(f"authtrace:obs:{k}", v)
    new = []
    for tr, ep, op, msg in bad[:8]:
        kind = op.split()[-1] if op != "driver" else "driver"
        sig = f"e2e:c06:authtrace:{kind}"
        if ctx.violation(sig, msg, {"kind": "e2e", "harness": "vh-e2e", "scenario": tr.params, "scenario_args": e2e.args_of(tr.params),
                                    "endpoint": ep, "replay": "harness/vh-e2e binary with scenario_args; tools/e2e_ops_auth.ops_for; lean driver auth-trace"}):
            new.append(msg)
    enough = kinds.get("processed", 0) > 0 and (kinds.get("duplicate", 0) + kinds.get("forged-duplicate", 0)) > 0 and \
        (kinds.get("forged", 0) + kinds.get("forged-duplicate", 0)) > 0
    ctx.oblige("correspond", f"T:auth-trace: the Lean receive pipeline gives the implementation's verdict (processed / duplicate / too-old / forged / "
               f"unprotect-failed) for all {total_ops} observations of {len(traces)} real forgery/replay traces (both endpoints)",
               not bad and enough, "; ".join(new[:3]) if bad else f"not enough variety in the observations: {kinds}")
    if new:
        ctx.obligations[-1]["explained"] = True
