"""C12 part (tie T): everything an endpoint sends on a stream / at close is self-consistent."""
import e2e
import e2e_props


def run(ctx):
    ctx.assumptions.append('tie T samples real client+server runs on the deterministic IO provider with an adversarial network; it validates the model/oracles, it is not the proof')
    e2e_props.run_family(ctx, 'mixed', [e2e.o_c12], 48, 1500)
    e2e_props.run_family(ctx, 'flowctl', [e2e.o_c12], 16, 500)
    e2e_props.run_family(ctx, 'stopfin', [e2e.o_c12], 40, 1000)
    e2e_props.run_family(ctx, 'closing', [e2e.o_c12], 24, 600)
