"""C16 part: the packet-number map ring buffer (packet/number/map.rs) contains exactly what a
plain map would after the same operations (under the monotone-insert precondition of its callers)."""
from vlib import *

PROP_MODULES = ["QuicProofs.Props.C16PnMap"]
BRIDGES = ["QuicProofs.Bridge.SlidingWindow"]


def run(ctx):
    import gen.pnmap as g
    ctx.rule = (ctx.rule + " | " if ctx.rule else "") + (
        "pnmap: histories separated by reset, strictly increasing inserts with gaps at the capacity edges (7/8/9, 15/16/17), "
        "insert_or_update inside the range, removals and ranges at start/end/±1/holes/covering/outside, a few precondition "
        "violations (must panic); a case is non-trivial when the implementation answered ok and distinct when (op, answer + "
        "full content) differs")
    ctx.assumptions += ["pnmap: Lean kernel; regex pins of map.rs statements (tools/extractors/sliding_window.py); vh-core harness "
                        "(debug assertions on); python plain-dict oracle",
                        "pnmap: allocation in resize and a leaked (mem::forget) RemoveIter are not modelled"]
    step_extract(ctx, ["sliding_window"])
    lean_ok = step_lean(ctx, PROP_MODULES, BRIDGES)
    ok, out = cargo_build("vh-core")
    if not ok:
        ctx.oblige("build", "vh-core builds against /repo's working tree", False, out)
        return
    if not lean_ok:
        ctx.escalated = True
    tier = "thorough" if (ctx.tier == "thorough" or ctx.deep) else "quick"
    saved = ctx.tier
    ctx.tier = tier
    try:
        step_diff(ctx, "vh-core", "pnmap", "pnmap", tier_n(ctx, 8000, 300000))
    finally:
        ctx.tier = saved
    ctx.extra["exhaustive_pnmap"] = g.exhaustive_info(tier)
    if tier == "thorough":
        ctx.exhaustive = True
