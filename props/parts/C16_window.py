"""C16 part: the duplicate-detection sliding window (packet/number/sliding_window.rs) behaves
exactly like a plain set of accepted packet numbers (also the lemma C06/C01 rely on:
each packet number is accepted at most once)."""
from vlib import *

PROP_MODULES = ["QuicProofs.Props.C16Window"]
BRIDGES = ["QuicProofs.Bridge.SlidingWindow"]


def run(ctx):
    import gen.sliding_window as g
    ctx.rule = (ctx.rule + " | " if ctx.rule else "") + (
        "sliding_window: histories separated by reset, packet numbers at distance 0/1/2/126..131 from the right edge, "
        "huge jumps, re-insertions, descending runs; a case is non-trivial when the implementation answered (ok or a "
        "SlidingWindowError) and distinct when (op, answer) differs")
    ctx.assumptions += ["sliding window: Lean kernel; regex extraction of WINDOW_WIDTH/guards/shift amounts (tools/extractors/sliding_window.py); "
                        "vh-core harness; python plain-set oracle",
                        "sliding window: the crate's own debug-only `check_insert_result` self-check is not modelled (a failure of it shows up as `panic`)"]
    step_extract(ctx, ["sliding_window"])
    lean_ok = step_lean(ctx, PROP_MODULES, BRIDGES)
    ok, out = cargo_build("vh-core")
    if not ok:
        ctx.oblige("build", "vh-core builds against /repo's working tree", False, out)
        return
    if not lean_ok:
        ctx.escalated = True
    tier = "thorough" if (ctx.tier == "thorough" or ctx.deep) else "quick"
    saved = ctx.tier
    ctx.tier = tier            # the generator picks the exhaustive depth from the tier
    try:
        lines, r_out, l_out, mism = step_diff(ctx, "vh-core", "sliding_window", "sliding_window", tier_n(ctx, 6000, 300000))
    finally:
        ctx.tier = saved
    info = g.exhaustive_info(tier)
    ctx.extra["exhaustive_sliding_window"] = info
    if tier == "thorough":
        ctx.exhaustive = True
    # the Lean reference set (RefWindow) against the Lean model on the same histories: executable twin of
    # `window_refines_set`
    sub = [l for l in lines[: tier_n(ctx, 6000, 60000)] if l.split()[0] in ("ins", "check", "reset")]
    rc, a, _ = run_lines([DRIVER, "sliding_window"], sub)
    rc, b, _ = run_lines([DRIVER, "sliding_window-ref"], sub)
    ctx.evaluations += len(sub)
    ctx.oblige("correspond", f"Lean SlidingWindow model and Lean RefWindow (plain set) give the same answers on {len(sub)} ops", a == b,
               next((f"{l}: {x} vs {y}" for l, x, y in zip(sub, a, b) if x != y), ""))
