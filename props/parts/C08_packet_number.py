"""C08 part: packet numbers strictly increase and reconstruct (RFC 9000 §12.3, §17.1, A.2, A.3)."""
from vlib import *

PROP_MODULES = ["QuicProofs.Props.C08PacketNumber"]
BRIDGES = ["QuicProofs.Bridge.PacketNumber"]


def run(ctx):
    ctx.rule = ((ctx.rule + " | ") if ctx.rule else "") + \
        ("packet_number: (pn, largest-acked, receiver-largest) triples concentrated at the 2^7/2^15/2^23/2^31 distance "
         "thresholds ±2, at 0 and 2^62-1, with the receiver's largest between la and pn and on both sides of the window edge; "
         "a case is non-trivial when the implementation returned a value and distinct when its op line differs")
    ctx.assumptions += ["packet numbers: the packet-number-space tag (top 2 bits) is not modelled (all D ops run in ApplicationData); "
                        "constant-time behaviour of decode_packet_number (compiler_fence) is not modelled",
                        "tools/extractors/packet_number.py regex/statement translation of decode_packet_number and the PacketNumberLenValue tables"]
    step_extract(ctx, ["packet_number"])
    lean_ok = step_lean(ctx, PROP_MODULES, BRIDGES)
    ok, out = cargo_build("vh-core")
    if not ok:
        ctx.oblige("build", "vh-core builds against /repo's working tree", False, out)
        return
    if not lean_ok:
        ctx.escalated = True
    step_diff(ctx, "vh-core", "packet_number", "packet_number", tier_n(ctx, 4000, 400000))
    # Codec vs Rfc inside Lean on the same inputs (executable twin of truncate_minimal / expand_eq_rfc)
    import gen.packet_number as g
    lines = [l for l in g.gen(ctx.rng("pn-rfc"), tier_n(ctx, 3000, 200000), ctx.tier)]
    rc, a, _ = run_lines([DRIVER, "packet_number"], lines)
    rc, b, _ = run_lines([DRIVER, "packet_number-rfc"], lines)
    ctx.evaluations += len(lines)
    ctx.oblige("correspond", "Lean Codec.PacketNumber and Rfc.PacketNumber agree on generated inputs", a == b and len(a) == len(lines),
               next((f"{l}: {x} vs {y}" for l, x, y in zip(lines, a, b) if x != y), ""))
