"""C02 part: path-MTU discovery controller (quic/s2n-quic-core/src/path/mtu.rs) — an MTU black hole must not
stall the connection: fall back to the base MTU, and the probe search terminates."""
from vlib import *

PROP_MODULES = ["QuicProofs.Props.C02Mtu"]
BRIDGES = ["QuicProofs.Bridge.Mtu"]


def run(ctx):
    ctx.assumptions += ["mtu: private fields of mtu::Controller are read from its derived Debug output in vh-core; "
                        "the writer of on_transmit_probe is a harness stub (header/tag length 0); "
                        "MtuProbingComplete (dc) flagging and published events are not modelled"]
    step_extract(ctx, ["mtu"])
    lean_ok = step_lean(ctx, PROP_MODULES, BRIDGES)
    ok, out = cargo_build("vh-core")
    if not ok:
        ctx.oblige("build", "vh-core builds against /repo's working tree", False, out)
        return
    if not lean_ok:
        ctx.escalated = True
    step_diff(ctx, "vh-core", "mtu", "mtu", tier_n(ctx, 12000, 400000))
