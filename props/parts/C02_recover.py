"""C02 part (tie T): "if, after any finite sequence of network faults, datagrams are delivered again for long enough, every byte
written is delivered": with tiny stream / connection / stream-count credits (every transfer depends on MAX_DATA, MAX_STREAM_DATA,
MAX_STREAMS and *_BLOCKED frames getting through) and packet loss during a finite prefix, no endpoint may give up with
IdleTimerExpired once the network delivers again — that would be a deadlock of the retransmission machinery (e.g. a lost MAX_* frame
that is never re-sent), not a network failure.  Executable twin of `max_frames_retransmitted_until_acked` on real endpoints."""
import e2e_props


def o_c02_recovers(tr):
    bad = []
    if tr.attack or tr.end is None:
        return bad
    bh = tr.params.get("bh")
    if bh and int(bh.split(":")[1]) >= 10**7:
        return bad                  # permanent blackhole: giving up IS the required outcome (C02_e2e / C02_idletrace)
    healthy_from = int(tr.params.get("faults_until_ms", 0)) * 1000
    if bh:
        healthy_from = max(healthy_from, int(bh.split(":")[1]) * 1000)
    for r in tr.of("ev"):
        if r.name == "connectivity:connection_closed" and "IdleTimerExpired" in r.text and r.t > healthy_from:
            leak = leaked_stream(tr)
            if leak:
                bad.append(("e2e:c02:idle-timeout-after-recovery:stream-leaked-by-stop-after-reset",
                            f"endpoint {leak[0]} processed RESET_STREAM for stream {leak[1]} and its application then called stop_sending() / dropped "
                            f"the receive half without reading the reset: the stream is never finalized, its stream credit is never returned "
                            f"(no MAX_STREAMS), the peer stays blocked opening streams (STREAMS_BLOCKED x{leak[2]}) until IdleTimerExpired at {r.t}us"))
                break
            bad.append(("e2e:c02:idle-timeout-after-recovery",
                        f"endpoint {r.ep} gave up with IdleTimerExpired at {r.t}us although the network has been delivering every datagram "
                        f"since {healthy_from}us (idle timeout {tr.params.get(r.ep + '.max_idle_ms', 30000)}ms): the transfer dead-locked"))
            break
    return bad


def leaked_stream(tr):
    """(endpoint, stream id, number of STREAMS_BLOCKED frames its peer sent afterwards) when the dead-lock has this shape:
    the endpoint processed a RESET_STREAM for a stream, only afterwards its application called stop_sending() on that stream
    (logged `stop <sid>`), never read from it again, and the peer then kept asking for stream credit"""
    reset_at = {}
    for r in tr.recs:
        if r.kind == "rxp" and r.space == "app":
            for f in r.frames:
                if f["type"] == "RESET_STREAM":
                    reset_at.setdefault((r.ep, f["id"]), r.idx)
    for r in tr.of("app"):
        if r.what == "stop" and r.args:
            k = (r.ep, int(r.args[0]))
            if k in reset_at and reset_at[k] <= r.idx:
                later_reads = [a for a in tr.of("app") if a.ep == r.ep and a.idx > r.idx and a.args and a.args[0] == r.args[0] and a.what in ("read", "eof", "err")]
                pe = "s" if r.ep == "c" else "c"
                blocked = sum(1 for x in tr.recs if x.kind == "txp" and x.ep == pe and x.idx > r.idx and any(f["type"] == "STREAMS_BLOCKED" for f in x.frames))
                if not later_reads and blocked >= 3:
                    return (r.ep, int(r.args[0]), blocked)
    return None


def run(ctx):
    ctx.assumptions.append("tie T (C02_recover) samples real client+server runs with tiny flow-control credits and a lossy finite prefix; "
                           "it validates the retransmission models (IncrementalValueSync / PeriodicSync) against the implementation, it is not the proof")
    e2e_props.run_family(ctx, "flowctl", [o_c02_recovers], 24, 600, salt="/recover",
                         name="T:flowctl: no endpoint idles out after the network recovered (MAX_* / *_BLOCKED frames are re-sent until acknowledged)")
