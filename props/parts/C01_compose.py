"""C01 part: END-TO-END COMPOSITION (theorems only). For every history of the stream data sender (C12 model, any
flow controller), every network behaviour that delivers only frames the sender emitted (drop / duplicate / reorder /
delay at will — not forging or altering is C06's guarantee and the only assumption), and every read pattern at the
reassembly buffer (C16/C01 model): what the receiving application read is a prefix of what the sending application
wrote (`c01_end_to_end`), and exactly the bytes pushed before finish once reading is complete
(`c01_end_to_end_complete`). The ties of the two component models to /repo are established by the C12 parts
(trace acceptor on real end-to-end runs) and the C01/C16 reassembler parts (differential runs)."""
from vlib import *

PROP_MODULES = ["QuicProofs.Props.C01Compose"]


def run(ctx):
    ctx.assumptions.append("c01_end_to_end assumes the network/packet pipeline delivers only frames the peer emitted (C06: "
                           "forged_no_effect / processed_only_authentic; AEAD ideal); sender = QuicModel.Stream.DataSender "
                           "(tie: C12 parts), receiver = QuicModel.Data.RefBuf (tie: C01_reassembly / C16 differential)")
    step_lean(ctx, PROP_MODULES, [], extra_targets=())      # theorems only: no driver needed
