"""C05 part: variable-length integers (RFC 9000 §16)."""
from vlib import *

PROP_MODULES = ["QuicProofs.Props.C05VarInt"]
BRIDGES = ["QuicProofs.Bridge.VarInt"]


def run(ctx):
    ctx.rule = ("ops are generated per component from one PRNG (boundary values of every length class, every first byte, "
                "random values/bytes); a case is non-trivial when the implementation returned a value (not an error) and "
                "distinct when its op line differs")
    ctx.assumptions += ["Lean kernel; tools/extract.py regex extraction of the varint table/masks; vh-core harness and python oracles",
                        "unsafe pointer writes of the encoder are compared byte-for-byte by D (exact-size and roomy buffer), not modelled"]
    step_extract(ctx, ["varint"])
    lean_ok = step_lean(ctx, PROP_MODULES, BRIDGES)
    ok, out = cargo_build("vh-core")
    if not ok:
        ctx.oblige("build", "vh-core builds against /repo's working tree", False, out)
        return
    if not lean_ok:
        ctx.escalated = True     # a proof obligation broke: search deeper for a concrete failing input
    step_diff(ctx, "vh-core", "varint", "varint", tier_n(ctx, 4000, 400000))
    # Codec vs Rfc on the same inputs inside Lean (executable twin of encode_eq_rfc_emit / decode_eq_rfc_parse)
    import gen.varint as g
    lines = g.gen(ctx.rng("rfc"), tier_n(ctx, 2000, 100000), ctx.tier)
    rc, a, _ = run_lines([DRIVER, "varint"], lines)
    rc, b, _ = run_lines([DRIVER, "varint-rfc"], lines)
    ctx.evaluations += len(lines)
    ctx.oblige("correspond", "Lean Codec.VarInt and Rfc.VarInt agree on generated inputs", a == b,
               next((f"{l}: {x} vs {y}" for l, x, y in zip(lines, a, b) if x != y), ""))
