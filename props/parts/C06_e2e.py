"""C06 part (tie T): garbled / injected / replayed datagrams never reach frame processing; each packet at most once."""
import e2e
import e2e_props


def run(ctx):
    ctx.assumptions.append('tie T samples real client+server runs on the deterministic IO provider with an adversarial network; it validates the model/oracles, it is not the proof')
    e2e_props.run_family(ctx, 'forgery', [e2e.o_c06, e2e.o_c01], 48, 1500)
