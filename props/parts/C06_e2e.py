"""C06 part (tie T): garbled / injected / replayed datagrams never reach frame processing; each packet at most once;
forged traffic never costs an established connection its life."""
import e2e
import e2e_props


def fam_forgery_paths(rng, i):
    """unauthenticatable datagrams that carry the connection's destination id arrive from many different source addresses
    (an off-path attacker spraying spoofed sources) before and while the genuine client changes its address (NAT
    rebinding): path slots taken by packets that never authenticate must not starve the genuine migration"""
    d = rng.choice([5, 20])
    t1 = rng.choice([300, 600, 1000])
    p = {
        "seed": rng.randrange(1, 2**40), "bidi": 1, "uni": rng.choice([0, 1]), "suni": rng.choice([0, 1]),
        "size": rng.choice([300000, 800000]), "chunk": 20000, "delay_ms": d, "deadline_ms": 120000,
        "spoof_pm": rng.choice([300, 600, 1000]), "spoof_addrs": rng.choice([9, 12, 20, 40]), "spoof_garbage": 1,
        "rebind_at_ms": ",".join(str(t) for t in ([t1] if i % 2 == 0 else [t1, t1 + rng.choice([300, 700])])),
        "rebind_ip": rng.choice([0, 1]),
    }
    # keep the connection busy until well after the last rebind (one small stream per tick)
    last = int(p["rebind_at_ms"].split(",")[-1])
    p["hold_ms"] = last + 1500
    p["tick_ms"] = 40
    if i % 3 == 2:
        p["spoof_garbage"] = 0      # genuine (old, duplicate) packets from the spoofed addresses instead
    return e2e_props._nz(p)


e2e_props.FAMILIES.setdefault("forgery-paths", fam_forgery_paths)


def o_c06_survives(tr):
    """forged datagrams only (no loss, no blackhole): the connection must carry the whole transfer"""
    bad = []
    for r in tr.of("ev"):
        if r.name == "connectivity:connection_closed" and not __import__("re").search(r"error: (Closed|Application)", r.text):
            bad.append(("e2e:c06:connection-lost-after-forgery", f"endpoint {r.ep} lost the connection although only forged datagrams interfered: {r.text[:200]}"))
            break
    errs = [r for r in tr.of("app") if r.what == "err"]
    if errs and not bad:
        bad.append(("e2e:c06:connection-lost-after-forgery", f"application error although only forged datagrams interfered: {errs[0].ep} {' '.join(errs[0].args)[:200]}"))
    return bad


def run(ctx):
    ctx.assumptions.append('tie T samples real client+server runs on the deterministic IO provider with an adversarial network; it validates the model/oracles, it is not the proof')
    e2e_props.run_family(ctx, 'forgery', [e2e.o_c06, e2e.o_c01], 48, 1500)
    spoofed = {"n": 0}

    def nt(tr, s):
        k = sum(1 for w in tr.of("wire") if w.action == "spoof")
        spoofed["n"] += k
        return k >= 8 and s["end"] == "ok" and s["bytes_read"] > 0

    e2e_props.run_family(ctx, 'forgery-paths', [e2e.o_c06, e2e.o_c01, o_c06_survives], 18, 300, nontrivial=nt)
    ctx.oblige("coverage", f"forgery-paths: {spoofed['n']} spoofed-source datagrams were delivered to the server", spoofed["n"] >= 100, "the family no longer sprays spoofed sources")
