"""C12 part (component-level tie on crate-private code): the REAL `StreamImpl` send halves + `StreamFlowController` +
shared `OutgoingConnectionFlowController` + `writer::Stream` framing, driven in-crate through the cfg-guarded hook with
histories of writes / FIN / reset / STOP_SENDING / MAX_DATA / MAX_STREAM_DATA / acknowledgements / losses / packet
capacities; the resulting wire-level history must be admitted step by step by the Lean acceptor `send-trace` (sound
w.r.t. C12 by `accepted_trace_satisfies_C12`) and satisfy an independent python statement of the property.
See tools/sendstreams.py."""
import sendstreams
from vlib import tier_n


def run(ctx):
    ctx.notes.append("send-streams: in-crate harness through the cfg(aws_s2n_quic_verif) hook; the same histories are used for C03 and C12")
    import regen
    regen.main()
    sendstreams.run_part(ctx, "C12", tier_n(ctx, 8000, 300000))
