"""C01 part: receiver side of 'stream bytes delivered exactly once, in order, unaltered' — whatever consistent
frames arrive in whatever order, the reassembly buffer hands out a prefix of the sender's byte string."""
from vlib import *

PROP_MODULES = ["QuicProofs.Props.C01Reassembly"]
BRIDGES = ["QuicProofs.Bridge.Reassembler"]


def run(ctx):
    import gen.reassembler as g
    ctx.rule = (ctx.rule + " | " if ctx.rule else "") + (
        "reassembly: same differential run as C16/reassembler (the C01 theorems are about Data.RefBuf, which this run ties to the real Reassembler)")
    step_extract(ctx, ["reassembler"])
    lean_ok = step_lean(ctx, PROP_MODULES, BRIDGES)
    ok, out = cargo_build("vh-core")
    if not ok:
        ctx.oblige("build", "vh-core builds against /repo's working tree", False, out)
        return
    if not lean_ok:
        ctx.escalated = True
    g.diff(ctx, tier_n(ctx, 1500, 20000))
