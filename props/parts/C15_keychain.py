"""C15 part: the 1-RTT key CHAIN — `OneRttKey::derive_next_key` of every TLS provider (RFC 9001 §6.1 "quic ku").

The KeySet part (C15_keyset.py) models keys as generation numbers; this part ties the assumption behind that
(`ChainOK`: a generation-i packet opens under the peer's generation-j key iff i = j, both endpoints derive the same
chain whatever TLS provider they use) to the real keys: real TLS handshakes (s2n-quic-tls / s2n-quic-rustls, every
server x client pair, every cipher suite that can be forced), real `derive_next_key` chains, an independent RFC 9001
implementation (tools/quiccrypto.py) fed with the TLS traffic secrets, and the Lean `ChainOK` checker replaying the
observed open/reject table."""
from vlib import *

PROP_MODULES = ["QuicProofs.Props.C15KeyChain"]
BRIDGES = ["QuicProofs.Bridge.KeyChain"]
HARNESS = "vh-tls"
COMP = "keychain"


def _run_both(g, lines):
    rc, r_out, r_err = run_lines([harness_bin(HARNESS), COMP], lines)
    if rc != 0 or len(r_out) != len(lines):
        raise RuntimeError(f"harness {HARNESS} {COMP} failed rc={rc} lines={len(r_out)}/{len(lines)}: {r_err[-1500:]}")
    rc, l_out, l_err = run_lines([DRIVER, COMP], lines)
    if rc != 0 or len(l_out) != len(lines):
        raise RuntimeError(f"lean driver {COMP} failed rc={rc} lines={len(l_out)}/{len(lines)}: {l_err[-1500:]}")
    mism = [i for i, (a, b) in enumerate(zip(r_out, l_out)) if g.normalise(lines[i], a) != b]
    return r_out, l_out, mism


def _shrink(g, seg, budget=150):
    """smallest subsequence of one handshake's ops on which model and implementation still disagree at the last op"""
    def bad(ls):
        try:
            r, l, m = _run_both(g, ls)
        except RuntimeError:
            return False
        return bool(m) and m[-1] == len(ls) - 1
    cur = list(seg)
    if not bad(cur):
        return cur
    i = 1                                   # keep the handshake line and the failing line
    while i < len(cur) - 1 and budget > 0:
        cand = cur[:i] + cur[i + 1:]
        budget -= 1
        if bad(cand):
            cur = cand
        else:
            i += 1
    return cur


def _shrink_oracle(g, seg, sig, budget=150):
    def bad(ls):
        rc, r, _ = run_lines([harness_bin(HARNESS), COMP], ls)
        return len(r) == len(ls) and any(s == sig for _, s, _ in g.oracle(ls, r))
    cur = list(seg)
    if not bad(cur):
        return cur
    i = 1
    while i < len(cur) and budget > 0:
        cand = cur[:i] + cur[i + 1:]
        budget -= 1
        if bad(cand):
            cur = cand
        else:
            i += 1
    return cur


def _is_known(ctx, sig):
    return any(k.get("property") == ctx.prop and k.get("status", "known") == "known" and re.fullmatch(k["signature"], sig) for k in ctx.known)


def run(ctx):
    import gen.keychain as g
    import quiccrypto as qc
    ctx.rule += (" | keychain: one segment per TLS handshake (server x client provider x cipher suite, plus s2n-quic-crypto keys from known "
                 "secrets and the RFC 9001 A.5 secret): both chains walked N generations, the same packet sealed under every generation, "
                 "the full (sealing generation x opening generation) table in both directions, own-packet opens, tampered opens, limits "
                 "and header-protection masks; non-trivial = the implementation answered `ok`, distinct by op kind, side, generation, "
                 "packet class and verdict")
    ctx.extra["keychain_rule"] = ctx.rule      # C15_keyset.py (runs later) assigns ctx.rule
    ctx.assumptions += [
        "keychain: the AEAD primitives of aws-lc (AES-GCM, ChaCha20-Poly1305) and the TLS 1.3 key schedule of s2n-tls / rustls up to the "
        "application traffic secrets are trusted; the secrets are read from the libraries' NSS key log (`with_key_logging()` of both providers)",
        "keychain: tools/quiccrypto.py (pure python HKDF-Expand-Label, AES-GCM, ChaCha20-Poly1305; self-tested against FIPS 197, the GCM "
        "specification, RFC 8439 and RFC 9001 A.1/A.3/A.5 vectors) is the independent reference for RFC 9001 §5.1/§5.4/§6.1",
        "keychain: s2n-tls x s2n-tls cannot be forced to ChaCha20-Poly1305 (no such security policy ships with s2n-tls); that suite is covered "
        "through s2n-tls x rustls in both roles and through s2n-quic-crypto keys from known secrets",
        "tools/extractors/keychain.py regex extraction (labels, per-suite wiring, shape of the key-update code); vh-tls harness",
    ]
    step_extract(ctx, ["keychain", "keyset"])
    lean_ok = step_lean(ctx, PROP_MODULES, BRIDGES)
    bad = qc.selftest()
    ctx.oblige("oracle", "tools/quiccrypto.py reproduces the published vectors (FIPS 197 C.1/C.3, GCM test cases 1,2,4,13,14, RFC 8439 §2.8.2, "
               "RFC 9001 A.1, A.3, A.5 incl. the `quic ku` secret and both header-protection masks)", not bad, " ".join(bad))
    ok, out = cargo_build(HARNESS)
    if not ok:
        ctx.oblige("build", "vh-tls builds against /repo's working tree (s2n-quic-tls, s2n-quic-rustls, s2n-quic-crypto)", False, out)
        return
    if not lean_ok:
        ctx.escalated = True
    n = tier_n(ctx, 6, 24)
    rng = ctx.rng(COMP)
    lines = g.gen(rng, n, ctx.tier if not ctx.escalated else "thorough")
    r_out, l_out, mism = _run_both(g, lines)
    ctx.evaluations += len(lines)
    for op, out in zip(lines, r_out):
        k = g.nontrivial(op, out)
        if k is not None:
            ctx.nontrivial.add(COMP + "|" + str(k))
        ctx.count(f"{COMP}:{op.split(' ')[0]}:{' '.join(g.normalise(op, out).split(' ')[:2])}")
    for j in range(3):
        k = (j * 7919 + 11) % len(lines)
        ctx.sample({"component": COMP, "op": lines[k][:200], "impl": g.normalise(lines[k], r_out[k])[:200], "model": l_out[k][:200]})

    # ---- the property oracle on the implementation's outputs --------------------------------
    fails = g.oracle(lines, r_out)
    new_fails, seen = [], set()
    by_sig = {}
    for (i, sig, msg) in fails:
        by_sig.setdefault(sig, (i, msg))
    # one mistake in a provider shows up under every provider pair / suite / kind: report every KIND once (first
    # provider pair it shows up in), shrunk; the complete list of signatures goes into the evidence
    kinds = {}
    for sig, (i, msg) in by_sig.items():
        if _is_known(ctx, sig):
            ctx.violation(sig, msg, {})          # registers the KNOWN-FINDING hit, records nothing
            continue
        kinds.setdefault(sig.split(":")[1], []).append((i, sig, msg))
    for kind, lst in sorted(kinds.items(), key=lambda kv: kv[1][0][0]):
        i, sig, msg = lst[0]
        seg = segment_upto(lines, i)
        small = _shrink_oracle(g, seg, sig) if len(new_fails) < 3 else seg
        rc, r_s, _ = run_lines([harness_bin(HARNESS), COMP], small)
        rc, l_s, _ = run_lines([DRIVER, COMP], small)
        if ctx.violation(sig, msg + (f" [same kind under {len(lst) - 1} more provider/suite combinations: " +
                                     ", ".join(x[1].split(':', 2)[2] for x in lst[1:6]) + "]" if len(lst) > 1 else ""),
                         {"kind": "oracle", "harness": HARNESS, "component": COMP, "ops": small, "impl_output": r_s, "model_output": l_s,
                          "failing_op": lines[i], "all_signatures_of_this_kind": [x[1] for x in lst]}):
            new_fails.append((i, sig, msg))
    ctx.extra["keychain_oracle_signatures"] = sorted(by_sig)
    ctx.oblige("oracle", f"D:{HARNESS}/{COMP}: agreement, distinctness, RFC 9001 ciphertexts / hp masks, limits, tamper rejection on {len(lines)} ops",
               not new_fails, "; ".join(m for _, _, m in new_fails[:5]))
    if new_fails:
        ctx.obligations[-1]["explained"] = True

    # ---- model vs implementation on the same ops -------------------------------------------
    detail = ""
    if mism:
        i = mism[0]
        small = _shrink(g, segment_upto(lines, i))
        try:
            r_s, l_s, _ = _run_both(g, small)
        except RuntimeError:
            r_s, l_s = [], []
        detail = (f"first disagreement at op {i}: {lines[i][:160]} impl={g.normalise(lines[i], r_out[i])[:160]} model={l_out[i][:160]}; "
                  f"shrunk to {len(small)} ops")
        f2 = g.oracle(small, r_s) if r_s else []
        for (k, sig, msg) in f2[:5]:
            ctx.violation(sig, msg, {"kind": "oracle", "harness": HARNESS, "component": COMP, "ops": small, "impl_output": r_s, "model_output": l_s})
        ctx.extra.setdefault("disagreements", []).append({"component": COMP, "ops": small, "impl": [g.normalise(o, x) for o, x in zip(small, r_s)],
                                                          "model": l_s, "count": len(mism)})
    ctx.oblige("correspond", f"D:{HARNESS}/{COMP}: the ideal-AEAD generation model (ChainOK both directions) and the real key chains agree on "
               f"{len(lines)} ops (ciphertext bytes, TLS secrets and hp masks abstracted)", not mism, detail)
    if mism:
        o = ctx.obligations[-1]
        o["replay"] = {"component": COMP, "harness": HARNESS, "ops": small}
        if fails or f2:
            o["explained"] = True

    # ---- coverage of the run: which ties actually ran ----------------------------------------
    segs = [s for s in g.parse(lines, r_out) if s.head[0] in ("hs", "keys")]
    def intended(s):
        h = s.head
        if h[0] == "hs" and len(h) == 4:
            return (h[1], h[2], h[3]) in g.TLS_COMBOS or h[1] == h[2] == "rustls-default"
        return h[0] == "keys" and len(h) == 4 and len(h[2]) >= 64
    wanted = [s for s in segs if intended(s)]
    failed_hs = [" ".join(s.head[:4]) for s in wanted if not s.ok]
    ctx.oblige("correspond", f"every handshake completed ({len(wanted)} segments: {len(g.TLS_COMBOS)} TLS provider/suite combinations + s2n-quic-crypto "
               "keys from known secrets)", not failed_hs, "; ".join(failed_hs[:5]))
    forced = [" ".join(s.head) + " -> " + str(s.suite) for s in wanted if s.ok and s.head[0] == "hs" and s.head[1] != "rustls-default" and s.suite != s.head[3]]
    ctx.oblige("correspond", "every handshake negotiated the requested cipher suite", not forced, "; ".join(forced[:5]))
    nosecret = [s.label for s in wanted if s.ok and (s.secrets["c"] is None or s.secrets["s"] is None)]
    ctx.oblige("oracle", "the RFC 9001 comparison ran for every handshake (both application traffic secrets were logged by the TLS library)",
               not nosecret, "; ".join(nosecret[:5]))
    ran = {"agreement+distinctness tables": 0, "rfc9001 ciphertexts compared": 0, "hp masks compared": 0, "tamper probes": 0,
           "provider pairs": sorted({s.label for s in wanted if s.ok})}
    for s in wanted:
        if not s.ok:
            continue
        ch = g.rfc_chains(s)
        ran["rfc9001 ciphertexts compared"] += sum(1 for p in s.packets.values() if ch[p["who"]] is not None)
        ran["hp masks compared"] += len(s.hp)
        ran["tamper probes"] += len(s.openx)
    # ---- the Lean ChainOK checker on the observed tables -------------------------------------
    obs_lines, expect = [], []
    for s in wanted:
        if not s.ok:
            continue
        for d, tab in sorted(g.observation_tables(s).items()):
            if not tab:
                continue
            top = max(max(i, j) for (i, j) in tab)
            complete = all((i, j) in tab for i in range(top + 1) for j in range(top + 1))
            if not complete:
                continue                     # banded tables of the long chains are judged by the python oracle only
            obs_lines.append("reset")
            expect.append(None)
            for (i, j), vs in sorted(tab.items()):
                for v in vs:
                    obs_lines.append(f"obs {i} {j} {1 if v else 0}")
                    expect.append("ok")
            obs_lines.append(f"check {top}")
            expect.append((s, d, f"ok chainok {top}"))
            ran["agreement+distinctness tables"] += 1
    rc, o_out, o_err = run_lines([DRIVER, "keychain-obs"], obs_lines)
    ctx.evaluations += len(obs_lines)
    broken = []
    if rc != 0 or len(o_out) != len(obs_lines):
        broken.append(f"lean driver keychain-obs failed rc={rc}: {o_err[-500:]}")
    else:
        for line, e, got in zip(obs_lines, expect, o_out):
            if isinstance(e, tuple) and got != e[2]:
                s, d, _ = e
                broken.append(f"{s.label} {d}: {got}")
                sig = f"keychain:observed-table-not-chainok:{s.label}"
                if fails:
                    continue                 # the python oracle has reported (and shrunk) the same tables above
                ctx.violation(sig, f"the table observed on the real keys ({s.label}, {d}) does not satisfy ChainOK: Lean checker says `{got}`",
                              {"kind": "oracle", "harness": HARNESS, "component": COMP, "ops": segment_upto(lines, s.start) + [], "lean_verdict": got,
                               "segment_head": " ".join(s.head[:4])})
    ctx.oblige("correspond", f"the Lean `ChainOK` checker (Conn.KeyChain.check, proved sound and complete) accepts all {ran['agreement+distinctness tables']} "
               "complete observation tables (sealing generation x opening generation, both directions)", not broken, "; ".join(broken[:5]))
    if broken and fails:
        ctx.obligations[-1]["explained"] = True

    # ---- reverse direction: python seals per RFC 9001, the real s2n-quic-crypto chain opens ---
    ops2, want = g.gen_rfc(ctx.rng(COMP + "/rfc"), n, per_gen=2 if ctx.tier == "quick" else 6)
    rc, r2, e2 = run_lines([harness_bin(HARNESS), COMP], ops2)
    ctx.evaluations += len(ops2)
    bad2 = [(o, a, w) for o, a, w in zip(ops2, r2, want) if w is not None and a != w] if len(r2) == len(ops2) else [("run", e2[-300:], "")]
    for (o, a, w) in bad2[:1]:
        idx = ops2.index(o) if o in ops2 else 0
        ctx.violation("keychain:rfc9001-packet-verdict:" + o.split(" ")[0], f"packet sealed by the RFC 9001 reference: {o[:120]} -> {a}, expected {w}",
                      {"kind": "oracle", "harness": HARNESS, "component": COMP, "ops": segment_upto(ops2, idx), "impl_output": a})
    ctx.oblige("oracle", f"packets sealed by the RFC 9001 reference open under the right generation of the real s2n-quic-crypto chain and under no other "
               f"({sum(1 for w in want if w)} probes, known secrets incl. RFC 9001 A.5)", not bad2, str(bad2[:2]))
    if bad2:
        ctx.obligations[-1]["explained"] = True
    ctx.extra["keychain_ties_ran"] = ran
    ctx.notes.append(f"keychain: (a) cross-provider agreement and (b) distinctness ran on {ran['agreement+distinctness tables']} complete tables "
                     f"(N={n} key updates) over {len(ran['provider pairs'])} provider/suite combinations; (c) RFC 9001 byte-for-byte comparison ran on "
                     f"{ran['rfc9001 ciphertexts compared']} ciphertexts and {ran['hp masks compared']} header-protection masks; RFC 9001 A.5 vector "
                     f"sealed by the real ChaCha20-Poly1305 key")
