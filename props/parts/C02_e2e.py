"""C02 part (tie T): every scenario terminates: completes after the fault prefix, or the failure is reported within the idle timeout."""
import e2e
import e2e_props


def run(ctx):
    ctx.assumptions.append('tie T samples real client+server runs on the deterministic IO provider with an adversarial network; it validates the model/oracles, it is not the proof')
    e2e_props.run_family(ctx, 'blackhole', [e2e.o_c02], 40, 1200)
    e2e_props.run_family(ctx, 'mixed', [e2e.o_c02_term], 24, 600)
