"""C10 part: CUBIC / BBRv2 window bounds, in-flight bookkeeping, the send gate.

Lean: skeleton models (every float / network-model value is an oracle parameter) + theorems for all
histories and all oracle values; tie G: constants, comparison operators and guard shapes of cubic.rs /
bbr.rs / path/mod.rs; tie D (RELATIONAL): the real controllers are driven through the trait by vh-core,
each observed post-state must be one the skeleton admits from its current state; the python oracle checks
the property's numeric clauses on the implementation's outputs after every event."""
from vlib import *

PROP_MODULES = ["QuicProofs.Props.C10Congestion"]
BRIDGES = ["QuicProofs.Bridge.Congestion"]
HARNESS = "vh-core"
COMP = "congestion"


def relational_lines(ops, outs):
    return [op if op.strip() == "reset" else f"{op} => {out}" for op, out in zip(ops, outs)]


def run_pair(ops):
    rc, r_out, r_err = run_lines([harness_bin(HARNESS), COMP], ops)
    if rc != 0 or len(r_out) != len(ops):
        raise RuntimeError(f"harness {HARNESS} {COMP} failed rc={rc} lines={len(r_out)}/{len(ops)}: {r_err[-2000:]}")
    rc, l_out, l_err = run_lines([DRIVER, COMP], relational_lines(ops, r_out))
    if rc != 0 or len(l_out) != len(ops):
        raise RuntimeError(f"lean driver {COMP} failed rc={rc} lines={len(l_out)}/{len(ops)}: {l_err[-2000:]}")
    return r_out, l_out


def not_admitted(ops, l_out):
    return [i for i, (op, l) in enumerate(zip(ops, l_out)) if l != "ok" and not (op.strip() == "reset" and l == "ok reset")]


def shrink(seg, pred, budget=300):
    """greedy delta debugging over op lines; `pred(ops)` = still failing. Keeps the first (`new`) line."""
    cur = list(seg)
    changed = True
    while changed and budget > 0:
        changed = False
        i = 1
        while i < len(cur) - 1 and budget > 0:
            cand = cur[:i] + cur[i + 1:]
            budget -= 1
            if pred(cand):
                cur = cand
                changed = True
            else:
                i += 1
    return cur


def step_relational(ctx, g, n):
    ops = g.gen(ctx.rng(COMP), n, ctx.tier)
    r_out, l_out = run_pair(ops)
    ctx.evaluations += len(ops)
    for op, out in zip(ops, r_out):
        k = g.nontrivial(op, out)
        if k is not None:
            ctx.nontrivial.add(COMP + "|" + k)
        t = op.split(" ")
        ctx.count(f"{COMP}:{t[0]}:{out.split(' ')[0]}")
        if t[0] == "new":
            ctx.count(f"{COMP}:history:{t[1]}:{t[2]}")
    for j in range(min(3, len(ops))):
        k = (j * 7919 + 13) % len(ops)
        ctx.sample({"component": COMP, "op": ops[k], "impl": r_out[k], "model": l_out[k]})
    states = {}
    for op, out in zip(ops, r_out):
        m = re.search(r"state=(\w+)", out)
        if m:
            states[m.group(1)] = states.get(m.group(1), 0) + 1
    ctx.extra["controller_states_seen"] = states
    ctx.extra["cubic_reductions_for_packets_sent_before_previous_recovery_start"] = g.rfc_b6_deviations(ops, r_out)

    # ---- the property's Boolean twin on the implementation's outputs --------------------------
    fails = g.oracle(ops, r_out)
    seen, new_fails = set(), []
    for (i, sig, msg) in fails:
        if sig in seen:
            continue
        seen.add(sig)
        seg = segment_upto(ops, i)

        def still(c, sig=sig):
            rc, o, _ = run_lines([harness_bin(HARNESS), COMP], c)
            return any(s == sig for _, s, _ in g.oracle(c, o))
        small = shrink(seg, still)
        rc, o_s, _ = run_lines([harness_bin(HARNESS), COMP], small)
        if ctx.violation(sig, msg, {"kind": "oracle", "harness": HARNESS, "component": COMP, "ops": small,
                                    "impl_output": o_s, "failing_op": ops[i]}):
            new_fails.append((i, sig, msg))
    ctx.oblige("oracle", f"D:{HARNESS}/{COMP}: implementation outputs satisfy the C10 oracle after every event ({len(ops)} ops)"
               + (f" [known findings reproduced: {sorted(seen - {s for _, s, _ in new_fails})}]" if len(seen) > len(new_fails) else ""),
               not new_fails, "; ".join(m for _, _, m in new_fails[:5]))
    if new_fails:
        ctx.obligations[-1]["explained"] = True

    # ---- every real step is a step the skeleton admits ------------------------------------------
    bad = not_admitted(ops, l_out)
    detail = ""
    if bad:
        i = bad[0]
        seg = segment_upto(ops, i)

        def still(c):
            r, l = run_pair(c)
            return bool(not_admitted(c, l))
        small = shrink(seg, still)
        r_s, l_s = run_pair(small)
        detail = (f"first non-admitted step at op {i}: {ops[i]} impl={r_out[i]} model={l_out[i]}; shrunk to {len(small)} ops: "
                  + " | ".join(f"{a} => {b} [{c}]" for a, b, c in zip(small, r_s, l_s))[-1500:])
        f2 = g.oracle(small, r_s)
        for (k, sig, msg) in f2[:5]:
            ctx.violation(sig, msg, {"kind": "oracle", "harness": HARNESS, "component": COMP, "ops": small, "impl_output": r_s, "model_output": l_s})
        ctx.extra.setdefault("disagreements", []).append({"component": COMP, "ops": small, "impl": r_s, "model": l_s, "count": len(bad)})
    ctx.oblige("correspond", f"D:{HARNESS}/{COMP}: every one of {len(ops)} real steps is admitted by the CUBIC/BBR skeleton (relational)", not bad, detail)
    if bad:
        o = ctx.obligations[-1]
        o["replay"] = {"component": COMP, "harness": HARNESS, "ops": small, "impl": r_s, "model": l_s}
        if fails or f2:
            o["explained"] = True
    panics = sum(1 for o in r_out if o.startswith("panic"))
    if panics:
        ctx.count(f"{COMP}:panics", panics)


def run(ctx):
    ctx.rule = ("histories for both controllers (mds 1200/1350/1472/4000/9000 and random sizes in between) are generated from one PRNG by a "
                "simulated sender that respects the caller contract; the python oracle is evaluated on the implementation's output after EVERY "
                "op; a case is non-trivial when the controller answered with a state line and distinct when (op kind, controller state, flags, "
                "cwnd, bytes in flight) differ")
    ctx.assumptions += [
        "Lean kernel; tools/extractors/congestion.py regex extraction; vh-core harness, generator and python oracle",
        "CUBIC is f32: Recovery.Cubic is a SKELETON — every float expression (w_cubic, w_est, slow-start increment, HyStart exit, "
        "multiplicative decrease before clamping, MTU rescaling) is an oracle parameter constrained only by the code's own min/max/early "
        "returns; the theorems hold for all oracle values, D checks that every real step is an admitted step (relational), it does not "
        "predict the window",
        "cubic_cwnd_ge_min is proved as _partial: the TCP-friendly assignment `w_est.min(max_cwnd)` has no lower clamp, the theorem assumes "
        "w_est*mds >= minimum_window there; the generator hunts for the excluded point on the real code",
        "cubic_loss_never_increases assumes fl(cwnd * BETA_CUBIC) <= cwnd (BETA_CUBIC < 1 is bridged from the source)",
        "BBR: Recovery.Bbr models only the write sites of cwnd, the clamp, the in-flight counter and recovery state; the bandwidth/round/"
        "probe state machines are oracle parameters. `cwnd += newly_acked` is an unchecked u32 addition: no-overflow is proved only under "
        "the hypothesis that it fits (witness in Lean), minimum_window multiplies in u16 (mds <= 16383)",
        "Path::transmission_constraint is in a private crate: decision table + tie G only; that connections consult it before sending is "
        "covered by the e2e part (T)",
    ]
    ctx.explanation = ("proof (partial): skeleton models of CUBIC/BBR with oracle parameters for all floating-point / network-model values; "
                       "window floor, loss/ECN monotonicity, one reduction per recovery period, no growth while application-limited, persistent "
                       "congestion collapse, exact in-flight ledger, send-gate table proved for all histories and oracle values; tie by G + "
                       "relational D on the real controllers")
    step_extract(ctx, ["congestion"])
    lean_ok = step_lean(ctx, PROP_MODULES, BRIDGES)
    ok, out = cargo_build(HARNESS)
    if not ok:
        ctx.oblige("build", "vh-core builds against /repo's working tree", False, out)
        return
    if not lean_ok:
        ctx.escalated = True
    import gen.congestion as g
    step_relational(ctx, g, tier_n(ctx, 6000, 300000))
