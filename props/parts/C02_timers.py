"""C02 part (Lean half): timer / retransmission / waker state machines — theorems of lean/QuicProofs/Props/C02Timers.lean
(PARTIAL: safety invariants + a liveness skeleton for one fair schedule class of the model) and the tie G bridge
lean/QuicProofs/Bridge/Timers.lean against /repo's current text (tools/extractors/timers.py)."""
from vlib import *

PROP_MODULES = ["QuicProofs.Props.C02Timers"]
BRIDGES = ["QuicProofs.Bridge.Timers"]


def run(ctx):
    ctx.assumptions += [
        "C02 is PARTIAL: the Lean theorems are safety invariants of the modelled timer / retransmission / waker state machines plus "
        "`progress_fair_round`, which is liveness for ONE fair schedule class of the composed abstract model only; liveness of the real "
        "executor (tokio/bach, real timers, wake-up delivery) is explored by tie T (C02_e2e, C02_idletrace), not proved",
        "models transcribed by hand from connection_impl.rs (idle timer), recovery/manager.rs (update_pto_timer / check_consistency), "
        "sync/incremental_value_sync.rs, sync/periodic_sync.rs, stream/{send,receive}_stream.rs and stream/controller/local_initiated.rs (wakers); "
        "tie G (tools/extractors/timers.py, token-level) pins the 3 x PTO / max / restart rules, the guards of update_pto_timer, the defaults "
        "(idle 30 s, handshake 10 s) and the shape of the value/periodic sync functions; tie T (idle-trace) replays real idle closes through the idle-timer model",
        "the waker models cover the requests the public stream API issues (no low watermark, no reset+flush); the open-stream waiters of LocalInitiated "
        "violate the invariant in the model (open_waiter_lost_wakeup_counterexample) — reported as a finding, only open_waiters_partial is proved",
    ]
    step_extract(ctx, ["timers"])
    step_lean(ctx, PROP_MODULES, BRIDGES)
