"""C15 part: AEAD limits and key updates — KeySet / limited::Key (RFC 9001 §6)."""
from vlib import *

PROP_MODULES = ["QuicProofs.Props.C15KeySet"]
BRIDGES = ["QuicProofs.Bridge.KeySet"]


def run(ctx):
    ctx.rule = (ctx.rule + " | " if getattr(ctx, "rule", "") else "") + ("histories of two real KeySet endpoints over a scripted reordering/duplicating/dropping channel with tiny limits "
                "(confidentiality 8-20, window 2-5, integrity 3-6); a case is non-trivial when the implementation accepted the op "
                "(sealed / opened / timer tick) and distinct when op kind + full output line (result and both endpoints' state) differ")
    ctx.assumptions += ["ideal AEAD: a packet opens iff the selected slot holds the key generation it was sealed with (instrumented OneRttKey in the harness)",
                        "key derivation (HKDF), header protection and the transport's choice of largest_acked / PTO are not modelled",
                        "tools/extractors/keyset.py regex extraction; vh-core harness; python oracle"]
    step_extract(ctx, ["keyset"])
    lean_ok = step_lean(ctx, PROP_MODULES, BRIDGES)
    ok, out = cargo_build("vh-core")
    if not ok:
        ctx.oblige("build", "vh-core builds against /repo's working tree", False, out)
        return
    if not lean_ok:
        ctx.escalated = True
    n = tier_n(ctx, 12000, 400000)
    lines, r_out, l_out, mism = step_diff(ctx, "vh-core", "keyset", "keyset", n)

    # which candidate repairs does the tree carry? (decides which theorems are the ones tied to the code)
    import extractors.keyset as ex
    import gen.keyset as g
    rot, enc = ex.flags(REPO)
    ctx.extra["keyset_repairs_in_tree"] = {"rotate_only_if_no_update_in_progress": rot, "no_initiate_while_update_in_progress": enc}
    sigs = {s for _, s, _ in g.oracle(lines, r_out)}
    ctx.oblige("bridge", "decrypt_packet carries the rotate guard (`!update_in_progress`), so peers_keep_decrypting / conf_limit_per_generation / "
               "active_generation_monotone (not only the _partial versions) are the statements tied to the code", bool(rot),
               "pinned shape: rotate_phase() whenever packet_phase != key_phase (F5)")
    if not rot and "keyset:phase-rotated-back" in sigs:
        ctx.obligations[-1]["explained"] = True
    ctx.oblige("bridge", "encryption_phase carries the guard (`!key_update_in_progress()`), so gen_monotone_in_pn / gen_monotone_in_pn_system (not only "
               "gen_monotone_in_pn_partial) are the statements tied to the code",
               bool(enc), "pinned shape: next phase whenever the active key needs an update (F5b)")
    if not enc and "keyset:older-generation-for-higher-pn:update-in-progress" in sigs:
        ctx.obligations[-1]["explained"] = True

    # executable twin: the fully repaired Lean model satisfies the property oracle on the same histories,
    # the pinned Lean model reproduces both defects
    rc, full_out, _ = run_lines([DRIVER, "keyset-full"], lines)
    ctx.evaluations += len(lines)
    f = g.oracle(lines, full_out)
    ctx.oblige("correspond", f"the Lean model with both candidate repairs satisfies the property oracle on {len(lines)} generated ops", not f,
               "; ".join(m for _, _, m in f[:3]))
    rc, pin_out, _ = run_lines([DRIVER, "keyset-pinned"], lines)
    ps = {s for _, s, _ in g.oracle(lines, pin_out)}
    want = {"keyset:phase-rotated-back", "keyset:older-generation-for-higher-pn:update-in-progress"}
    ctx.oblige("correspond", "the pinned Lean model (no repairs) exhibits both defect signatures on the generated ops", want <= ps, str(sorted(ps)))
