"""C07 part: the RFC 9000 / 9001 conformance an INDEPENDENT peer depends on and that s2n-quic talking to itself (and the
sampled quiche runs, which use one cipher suite, no Retry and few frame types) cannot reveal.

* key schedule, packet protection and header protection of every cipher suite / TLS provider pair against a pure-python
  RFC 9001 reference (the `keychain` component of C15, run here under C07: a symmetric deviation — e.g. the wrong
  header-protection cipher for AES-256-GCM — keeps s2n <-> s2n working and breaks every other implementation);
* Retry integrity tag (RFC 9001 §5.8) validated by the real client-side code for every value of the unused first-byte
  bits, against the same reference;
* frames every conformant peer may send in a 1-RTT packet are ACCEPTED (family `c07-legal`: the adversarial-peer
  machinery of C04 used for LEGAL frames; verdict: no connection error)."""
import e2e_c04
import e2e_props
from props.parts import C15_keychain
from vlib import *

# (frame sample of harness/vh-e2e/src/attacks.rs `sp-<type>`, roles that may send it in a 1-RTT packet)
LEGAL = [("ping", "cs"), ("new-token", "s"), ("max-data", "cs"), ("max-stream-data", "cs"), ("max-streams", "cs"),
         ("max-streams-uni", "cs"), ("data-blocked", "cs"), ("stream-data-blocked", "cs"), ("streams-blocked", "cs"),
         ("streams-blocked-uni", "cs"), ("path-challenge", "cs"), ("handshake-done", "s"), ("stop-sending", "cs")]
CASES = [(t, a) for t, roles in LEGAL for a in roles]


def fam_c07_legal(rng, i):
    t, attacker = CASES[i % len(CASES)]
    p = {
        "seed": rng.randrange(1, 2**40), "attack": "sp-" + t, "attacker": attacker, "attack_space": "app",
        "attack_at": rng.choice([1, 3, 5]), "bidi": 1, "uni": rng.choice([0, 1]), "suni": 1, "size": rng.choice([3000, 20000]),
        "chunk": 700, "delay_ms": rng.choice([10, 25]), "deadline_ms": 60000,
    }
    return e2e_props._nz(p)


e2e_props.FAMILIES.setdefault("c07-legal", fam_c07_legal)


def run(ctx):
    ctx.assumptions.append("C07 conformance part: tools/quiccrypto.py (pure python RFC 9001 reference, self-tested on the RFC vectors) is the "
                           "independent reference for packet / header protection and the Retry integrity tag; the legal-frame family uses the "
                           "sample frames of harness/vh-e2e/src/attacks.rs")
    # ---- RFC 9001: key schedule, AEAD, header protection (all suites, both TLS providers)
    C15_keychain.run(ctx)
    # ---- RFC 9001 §5.8: Retry integrity
    ok, out = cargo_build("vh-core")
    if not ok:
        ctx.oblige("build", "vh-core builds against /repo's working tree", False, out)
    else:
        import gen.retry_tag as g
        lines = g.gen(ctx.rng("retry_tag"), tier_n(ctx, 400, 20000), ctx.tier)
        rc, outs, err = run_lines([harness_bin("vh-core"), "retry_tag"], lines)
        ctx.evaluations += len(lines)
        good = rc == 0 and len(outs) == len(lines)
        new = []
        if good:
            for op, o in zip(lines, outs):
                k = g.nontrivial(op, o)
                if k:
                    ctx.nontrivial.add("retry_tag|" + k)
                ctx.count("retry_tag:" + o)
            seen = set()
            for i, sig, msg in g.oracle(lines, outs):
                if sig in seen:
                    continue
                seen.add(sig)
                if ctx.violation(sig, msg, {"kind": "oracle", "harness": "vh-core", "component": "retry_tag", "ops": [lines[i]], "impl_output": outs[i]}):
                    new.append(sig + ": " + msg)
        ctx.oblige("oracle", f"D:vh-core/retry_tag: the real Retry::validate (pseudo-packet + s2n-quic-crypto RetryKey) agrees with RFC 9001 5.8 on "
                   f"{len(lines)} Retry packets (every value of the unused first-byte bits, random ids / tokens, tampered tag / body / ODCID)",
                   good and not new, (err[-300:] if not good else "; ".join(new[:3])))
        if new:
            ctx.obligations[-1]["explained"] = True
    # ---- frames a conformant peer may send are accepted
    seen = {"accepted": 0}

    def nt(tr, s):
        o = e2e_c04.attack_outcome(tr)
        ctx.count("c07-legal:" + o.split(":")[0])
        if o == "accepted":
            seen["accepted"] += 1
        return o == "accepted"

    e2e_props.run_family(ctx, "c07-legal", [e2e_c04.o_c04_attack], len(CASES), 6 * len(CASES), nontrivial=nt,
                         name=f"T:c07-legal: 1-RTT frames RFC 9000 12.4 Table 3 permits from that role ({len(CASES)} frame x role cases) "
                              "cause no connection error (real endpoints, frames injected by the sending endpoint's interceptor)")
    ctx.oblige("coverage", f"c07-legal: the legal frame reached frame processing and was accepted in {seen['accepted']} runs", seen["accepted"] >= len(CASES) // 2,
               "most legal-frame runs never reached frame processing")
