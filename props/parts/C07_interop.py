"""C07 part (level `other`, PARTIAL by construction): interoperability with an independent RFC 9000/9001 implementation.

What is PROVED (Lean, for all inputs; the theorems belong to C05/C08/C14 and are re-audited here): the s2n-quic codec
models equal the independently written `Rfc.*` transcriptions of the wire format (frames, varints, transport-parameter
block and acceptance table, packet-number truncation/expansion).

What is OBSERVED (sampling, not proof): real s2n-quic endpoints (server and client) run against cloudflare quiche 0.29
(harness/vh-interop) on the repo's deterministic IO provider under loss / duplication / reordering and across windows,
stream limits, idle timeouts, UDP payload sizes and congestion controllers of BOTH sides; oracle `o_c07`; every cleartext
payload the s2n endpoint received from quiche or sent to quiche is decoded frame by frame by the real s2n decoder and by
the Lean RFC reference parser (they must agree), and quiche's / s2n's transport-parameter blocks (taken from the TLS
messages in the CRYPTO frames) are judged by the Lean RFC table, the real decoder, an independent python reading and
the peer's own view."""
import json
import os

import e2e_c07
from vlib import *

LEAN_MODULES = ["QuicProofs.Props.C05FrameRfc", "QuicProofs.Props.C05VarInt", "QuicProofs.Props.C05TransportParams",
                "QuicProofs.Props.C14TransportParams", "QuicProofs.Props.C05PacketNumber", "QuicProofs.Props.C08PacketNumber"]
# the RFC-layout conformance theorems C07 leans on (proved in the C05/C08/C14 packages)
THEOREMS = [
    "Quic.Proofs.C05.impl_eq_rfc_frame", "Quic.Proofs.C05.impl_eq_rfc_frames", "Quic.Proofs.C05.impl_eq_rfc_padding",
    "Quic.Proofs.C05.unknown_tag_rejected", "Quic.Proofs.C05.extension_only_documented",
    "Quic.Proofs.C05.decode_eq_rfc_parse", "Quic.Proofs.C05.encode_eq_rfc_emit", "Quic.Proofs.C05.varint_roundtrip",
    "Quic.Proofs.C05.tp_layout_eq_rfc", "Quic.Proofs.C05.tp_roundtrip",
    "Quic.Proofs.C14.tp_accept_iff_rfc", "Quic.Proofs.C14.tp_accept_iff_rfc_partial", "Quic.Proofs.C14.tp_values_exact",
    "Quic.Proofs.C14.tp_defaults_rfc", "Quic.Proofs.C14.tp_unknown_ignored",
    "Quic.Proofs.C05.pn_truncated_bytes_eq_rfc", "Quic.Proofs.C05.pn_wire_roundtrip",
    "Quic.Proofs.C08.expand_eq_rfc", "Quic.Proofs.C08.truncate_expand",
]


def lean_side(ctx):
    ok_all = True
    for m in LEAN_MODULES:
        ok, out = lake_build([m])
        if not ok:
            ctx.oblige("theorem", m + " (module does not build)", False, out)
            ok_all = False
    if not ok_all:
        return False
    okx, ax, out = print_axioms("C07", LEAN_MODULES, THEOREMS)
    for t in THEOREMS:
        a = ax.get(t)
        good = a is not None and set(a) <= STD_AXIOMS
        ctx.oblige("theorem", t + " (RFC-layout conformance of the s2n-quic model; proved in the C05/C08/C14 packages)", good,
                   "" if good else f"axioms: {a}\n{out[-1500:]}")
        ok_all &= good
        ctx.trusted.append(f"{t}: axioms {sorted(a) if a is not None else '?'}")
    hits = audit_sources(LEAN_MODULES)
    ctx.oblige("audit", "no sorry/admit/axiom/native_decide/bv_decide/implemented_by/unsafe/maxHeartbeats 0 in lean sources", not hits, "\n".join(hits))
    ok, out = lake_build(["driver"])
    if not ok:
        ctx.oblige("build", "lean driver builds", False, out)
        return False
    return ok_all and not hits


def run(ctx):
    ctx.level = "other"
    ctx.rule = ("interop: scenario = (role, s2n-quic limits, quiche configuration, network fault rates for a finite prefix, workload) drawn "
                "from the seeded generator `e2e_c07.fam_interop`, roles alternating; a run is non-trivial when both handshakes completed and "
                "application bytes were verified on both sides; distinct by parameter set")
    ctx.assumptions += [
        "quiche 0.29 (with BoringSSL) is taken as a conforming, independent implementation of RFC 9000/9001; a failure caused by a quiche "
        "defect would be reported as a violation and has to be triaged by reading the trace",
        "quiche reads std::time::Instant::now(); harness/vh-interop replaces the process-wide monotonic clock by the simulator's virtual "
        "clock (clock.rs, self-tested in every run: trace line `clock virtual=ok`)",
        "harness-level termination: both endpoints live in one process; the closing side sends its application close (code 0) only after "
        "both applications reported completion (shared flags) — this is scenario choreography, not protocol behaviour",
        "TLS randomness of s2n-tls and BoringSSL is not derived from the scenario seed: packet contents differ between runs of the same "
        "scenario, the schedule of the seeded network PRNG does not",
        "key derivation / packet and header protection (RFC 9001 §5) are exercised by every run (a deviation makes the handshake fail) but "
        "are not modelled in Lean",
    ]
    lean_ok = lean_side(ctx)
    okc, outc = cargo_build("vh-core")
    if not okc:
        ctx.oblige("build", "vh-core builds against /repo's working tree", False, outc)
    ok, out = cargo_build(e2e_c07.HARNESS)
    if not ok:
        # BoringSSL / quiche not buildable in this sandbox: say so, register nothing that would fail for that reason
        tail = out[-1500:]
        if "s2n" in tail and ("error[E" in tail or "error: could not compile `s2n" in tail or "could not compile `vh-interop" in tail):
            ctx.oblige("build", "vh-interop builds against /repo's working tree", False, tail)
        else:
            ctx.notes.append("vh-interop (s2n-quic + quiche/BoringSSL) is NOT BUILDABLE in this environment; only the Lean-side obligations "
                             "were checked. cargo output tail: " + tail[-600:])
        ctx.explanation = explanation(0, 0, {}, 0, 0, built=False)
        return
    n = tier_n(ctx, 12, 200)
    rng = ctx.rng("e2e/interop")
    scen = [e2e_c07.fam_interop(rng, i) for i in range(n)] + e2e_c07.fixed_scenarios()
    traces = e2e_c07.run_many(scen)
    per_role = {}
    fails = []
    for tr in traces:
        s = e2e_c07.summarize(tr)
        role = tr.params["role"]
        ctx.evaluations += 1
        ctx.count(f"interop:{role}:end:{s['end']}")
        okrun = s["end"] == "ok" and s["s2n_bytes_read"] + s["quiche_bytes_read"] > 0 and bool(tr.peer_of("established"))
        per_role.setdefault(role, [0, 0])
        per_role[role][0] += 1
        if okrun:
            per_role[role][1] += 1
            ctx.nontrivial.add(f"interop|{json.dumps(tr.params, sort_keys=True)}")
        if len(ctx.samples) < 10:
            ctx.sample({"e2e_family": "interop", **s})
        try:
            res = e2e_c07.o_c07(tr)
        except Exception as e:
            res = [("e2e:oracle-crash:o_c07", f"{type(e).__name__}: {e}")]
        seen = set()
        for sig, msg in res:
            if sig not in seen:
                seen.add(sig)
                fails.append((sig, msg, tr))
    ctx.traces_validated += len(traces)
    # ---- Lean cross-parse of the s2n endpoint's cleartext payloads -------------------------------------
    frames = 0
    payload_count = 0
    tp_checks = 0
    if okc:
        # per trace: every handshake-space payload, every small 1-RTT payload (control frames) and an evenly spaced
        # sample of the bulk (STREAM-carrying) 1-RTT payloads
        n_small, n_big = tier_n(ctx, 300, 400), tier_n(ctx, 60, 120)
        sel = []
        for ti, tr in enumerate(traces):
            recs = [r for r in tr.recs if r.kind in ("rxp", "txp")]
            hs = [r for r in recs if r.space != "app"]
            small = [r for r in recs if r.space == "app" and len(r.payload) < 200]
            big = [r for r in recs if r.space == "app" and len(r.payload) >= 200]
            small = small[::max(1, len(small) // n_small)]
            big = big[::max(1, len(big) // n_big)]
            sel += [((ti, f"{r.kind}:{r.space}:{r.pn}"), r.payload) for r in hs + small + big]
        payload_count = len(sel)
        try:
            frames, bad = e2e_c07.cross_parse_frames(sel)
        except Exception as e:
            frames, bad = 0, []
            fails.append(("e2e:oracle-crash:cross_parse_frames", f"{type(e).__name__}: {e}", traces[0]))
        for (ti, tag), off, msg in bad:
            direction = "received from quiche" if tag.startswith("rxp") else "sent to quiche"
            fails.append(("e2e:c07:frame-parse-disagreement", f"payload {tag} ({direction}) offset {off}: {msg}", traces[ti]))
        try:
            tp_res = e2e_c07.cross_parse_tp_many(traces)
        except Exception as e:
            tp_res = []
            fails.append(("e2e:oracle-crash:cross_parse_tp", f"{type(e).__name__}: {e}", traces[0]))
        for tr, (k, bad) in zip(traces, tp_res):
            tp_checks += k
            for msg in bad[:1]:
                fails.append(("e2e:c07:tp-disagreement", msg, tr))
    ctx.evaluations += frames + tp_checks
    ctx.count("interop:frames-cross-parsed", frames)
    ctx.count("interop:payloads-cross-parsed", payload_count)
    ctx.count("interop:tp-checks", tp_checks)
    by_sig = {}
    for sig, msg, tr in fails:
        by_sig.setdefault(sig, []).append((msg, tr))
    new = []
    for sig, lst in sorted(by_sig.items()):
        msg, tr = lst[0]
        if ctx.violation(sig, msg, {"kind": "e2e", "harness": e2e_c07.HARNESS, "scenario": tr.params,
                                    "scenario_args": e2e_c07.args_of(tr.params), "occurrences": len(lst),
                                    "replay": "harness/vh-interop binary with scenario_args (+ certdir=<dir>); oracle " + sig}):
            new.append((sig, msg))
    known = sorted(set(by_sig) - {s for s, _ in new})
    run_sigs = [s for s, _ in new if "parse-disagreement" not in s and "tp-disagreement" not in s and "cross_parse" not in s]
    x_sigs = [s for s, _ in new if s not in run_sigs]
    ctx.oblige("oracle", f"T:interop: o_c07 holds on {len(traces)} real s2n-quic <-> quiche 0.29 runs "
               f"({', '.join(f'{r}: {v[0]} runs, {v[1]} completed with data' for r, v in sorted(per_role.items()))})"
               + (f" [known findings reproduced: {known}]" if known else ""),
               not run_sigs, "; ".join(f"{s}: {m}" for s, m in new if s in run_sigs)[:1800])
    if run_sigs:
        ctx.obligations[-1]["explained"] = True
    ctx.oblige("correspond", f"T:interop: real s2n-quic decoder and Lean Rfc.Frame agree on {frames} frames of {payload_count} cleartext "
               f"payloads received from / sent to quiche; transport-parameter blocks of both sides pass {tp_checks} checks "
               "(Lean Rfc.TransportParams accepts, real decoder = Lean model = python RFC reading = configured values = peer's view)",
               not x_sigs and frames > 0, "; ".join(f"{s}: {m}" for s, m in new if s in x_sigs)[:1800] or ("no frame was cross-parsed" if not frames else ""))
    if x_sigs:
        ctx.obligations[-1]["explained"] = True
    roles_seen = sorted(per_role)
    ctx.oblige("coverage", "both roles (s2n-quic as server and as client) were exercised and completed at least one data-carrying run each",
               all(per_role.get(r, [0, 0])[1] > 0 for r in e2e_c07.ROLES),
               f"per role [runs, completed with data]: {per_role}")
    ctx.explanation = explanation(len(traces), frames, per_role, payload_count, tp_checks, built=True)
    ctx.extra["interop_roles"] = roles_seen


def explanation(n, frames, per_role, payloads, tp_checks, built):
    proved = ("PROVED part (Lean, all inputs; theorems of the C05/C08/C14 packages, axioms re-audited here): RFC-layout conformance of the "
              "s2n-quic codec model — frames: Quic.Proofs.C05.impl_eq_rfc_frame / impl_eq_rfc_frames / impl_eq_rfc_padding / "
              "unknown_tag_rejected; varints: decode_eq_rfc_parse / encode_eq_rfc_emit / varint_roundtrip; transport parameters: "
              "Quic.Proofs.C05.tp_layout_eq_rfc / tp_roundtrip and Quic.Proofs.C14.tp_accept_iff_rfc(_partial) / tp_values_exact / "
              "tp_defaults_rfc / tp_unknown_ignored; packet numbers: Quic.Proofs.C05.pn_truncated_bytes_eq_rfc / pn_wire_roundtrip and "
              "Quic.Proofs.C08.expand_eq_rfc / truncate_expand. ")
    if not built:
        return ("PARTIAL (level other). " + proved + "OBSERVED part: NOT RUN — harness/vh-interop (quiche + BoringSSL) could not be built in "
                "this environment, so no interoperability run was made; nothing about interoperability is claimed by this run.")
    roles = "; ".join(f"{r}: {v[0]} sampled runs ({v[1]} completed a verified two-way transfer)" for r, v in sorted(per_role.items()))
    return ("PARTIAL (level other): interop success is OBSERVATION on sampled runs, not proof. " + proved +
            f"OBSERVED part: {n} sampled interop runs of real s2n-quic against cloudflare quiche 0.29 on the deterministic IO provider — {roles} — "
            "with sampled loss/duplication/reordering prefixes, flow-control windows, stream limits, idle timeouts, ack-delay settings, UDP "
            "payload sizes, connection-id lengths and congestion controllers of either side, and bidirectional + unidirectional keyed "
            "transfers in both directions. Compared per run: handshake completion on both sides (s2n-quic application API, quiche "
            "is_established); absence of transport-level CONNECTION_CLOSE (quiche local_error/peer_error, s2n-quic connection_closed event); "
            "every byte read by either application against the keyed position-dependent payload, and EOF offsets against the bytes the other "
            f"side wrote; termination. Cross-parse: {frames} frames of {payloads} cleartext payloads that the s2n-quic endpoint RECEIVED FROM or SENT TO "
            "quiche were decoded by the real s2n-quic decoder (vh-core `frame dec`) and by the Lean reference parser Rfc.Frame (`frame-rfc dec`) "
            f"and had to agree field by field; {tp_checks} transport-parameter checks: quiche's block (from the ClientHello / EncryptedExtensions "
            "in the CRYPTO frames) must be accepted by Lean Rfc.TransportParams and by the real decoder, decoded values must equal the Lean "
            "model's, an independent python RFC reading and quiche's configuration; s2n-quic's own block must be accepted by the Lean RFC table "
            "and be read by quiche exactly as the RFC reading. Not covered: RFC 9001 §5 key derivation is exercised (a deviation breaks every "
            "handshake) but not modelled; version negotiation, Retry, 0-RTT, migration and key update are not part of the sampled scenarios.")
