"""C16 part: the capacity-bounded ACK range set `ack::Ranges` (quic/s2n-quic-core/src/ack/ranges.rs)."""
from vlib import *

PROP_MODULES = ["QuicProofs.Props.C16AckRanges"]
BRIDGES = ["QuicProofs.Bridge.AckRanges"]


def run(ctx):
    ctx.rule += (" | ackranges: receive-like histories (single packet numbers, every-other patterns, ranges, `rm 0..=x` as on_packet_ack does) "
                 "over small alphabets at 0, 1000 and 2^62-16 with limits 1,2,3,5,10 and the default; non-trivial = accepted op, "
                 "distinct by (op line, outcome kind, resulting range list)")
    ctx.assumptions += ["ackranges: PacketNumberSpace::ApplicationData only (the space tag does not influence the set logic)",
                        "ackranges: `set_limit`/`intersection` through DerefMut are outside the driven API (they can break len <= limit)"]
    step_extract(ctx, ["ack_ranges"])
    lean_ok = step_lean(ctx, PROP_MODULES, BRIDGES)
    ok, out = cargo_build("vh-core")
    if not ok:
        ctx.oblige("build", "vh-core builds against /repo's working tree", False, out)
        return
    if not lean_ok:
        ctx.escalated = True
    lines, r_out, _, _ = step_diff(ctx, "vh-core", "ackranges", "ack_ranges", tier_n(ctx, 60000, 600000))
    for op, out in zip(lines, r_out):
        o = out.split()
        if len(o) == 3 and op.startswith("ins"):
            ctx.count("ackranges:outcome:" + o[1].split(":")[0])
    import gen.ack_ranges as g
    if ctx.tier == "thorough" or ctx.deep:
        ctx.exhaustive = True
        sizes = {str(l): g.closure(l, list(range(10)))[1] for l in (1, 2, 3, 4, 5)}
        ctx.extra["exhaustive_ackranges"] = {
            "what": "breadth-first closure of the state graph: every (reachable state, op) pair for ops = insert_packet_number_range/remove of "
                    "every sub-interval of {0..9} + pop_min with limits 1..5 until no new state appears (complete state printed and checked "
                    "after every op, so every op sequence of any length over this alphabet is covered)",
            "reachable_states_per_limit": sizes}
    else:
        ctx.extra["exhaustive_ackranges"] = {"what": "quick tier: the same closure over {0..5} with limits 1,2,3"}
