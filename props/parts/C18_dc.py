"""C18 part: dc packet forms (stream, datagram, control, UnknownPathSecret, StaleKey, ReplayDetected)
round-trip / never crash a decoder / are only acted upon when authentic; forged secret-control packets
leave the path-secret map untouched."""
import re

from vlib import *

PROP_MODULES = ["QuicProofs.Props.C18DcPackets"]
BRIDGES = ["QuicProofs.Bridge.DcPackets"]


def _norm(line):
    """the model does not know the ciphertext: when a header mutation makes a decoder read length
    fields out of the (encrypted) payload, implementation and model may reject at different layers.
    Both layers are `rejected`; which positions are ACCEPTED is compared exactly."""
    line = re.sub(r"result=(decode|auth):\S+", "result=rejected", line)
    m = re.search(r"decode=(\d+) auth=(\d+)", line)
    if m:
        line = line.replace(m.group(0), f"rejected={int(m.group(1)) + int(m.group(2))}")
    return line


def soft(op, impl, model):
    return op.split(" ")[0] in ("mut", "mutscan") and _norm(impl) == _norm(model)


def run(ctx):
    ctx.level = "proof"
    ctx.rule = ("dc_packets: round trips of every packet kind with field values at the varint length-class boundaries and payload sizes "
                "0/1/15/16/17/1200/8900/65000, both cipher suites; every byte position x {bit0, bit7, bit4, 0x00, 0xff} and every single bit "
                "of the tag byte (quick: + 12 random masks; thorough: all 255 xor masks) on valid packets of every kind incl. probes and "
                "retransmissions; single/multi byte mutations; 10^4 (thorough 4*10^5) random and structured byte strings through all 8 "
                "decoders; truncated MAC tags. dc_map: real Map in 7 "
                "populations reached by production handshake callbacks, genuine/forged/cross-keyed/alien/raw datagrams through both "
                "production entry points, one segment aged past the 10 s eviction guard. A case is non-trivial when the implementation "
                "produced a value (decoded packet / handled datagram) and distinct when its op line differs")
    ctx.assumptions += [
        "CRYPTOGRAPHIC PRIMITIVES ASSUMED IDEAL in the Lean model: AES-GCM open / HMAC verify / token compare succeed iff exactly that "
        "call (key, nonce, associated data, ciphertext, tag, retransmission mask) was produced by the sealing side; the differential run "
        "exercises the real aws-lc primitives with both cipher suites",
        "the model does not know ciphertext bytes: for mutations that make a decoder read lengths out of the encrypted payload only "
        "accept/reject (not the rejecting layer) is compared (counted as soft divergence)",
        "Lean kernel; tools/extractors/dc_packets.py regex extraction; vh-dc harness, python layout and oracles",
        "map model: hash-table internals, the cleaner thread, capacity eviction, disk serialisation and event timestamps are not modelled; "
        "the 10 s eviction guard is real time in the harness (one `age` op sleeps 10 s) and a Boolean in the model",
    ]
    step_extract(ctx, ["dc_packets", "dc_replay"])
    lean_ok = step_lean(ctx, PROP_MODULES, BRIDGES)
    ok, out = cargo_build("vh-dc")
    if not ok:
        ctx.oblige("build", "vh-dc builds against /repo's working tree", False, out)
        return
    if not lean_ok:
        ctx.escalated = True
    step_diff(ctx, "vh-dc", "dc_packets", "dc_packets", tier_n(ctx, 3000, 40000), soft=soft)
    step_diff(ctx, "vh-dc", "dc_map", "dc_map", tier_n(ctx, 1200, 20000))
