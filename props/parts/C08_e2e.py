"""C08 part (tie T): ACK frames name only processed packets; packet numbers increase; promptness on receiver-only endpoints."""
import e2e
import e2e_props


def run(ctx):
    ctx.assumptions.append('tie T samples real client+server runs on the deterministic IO provider with an adversarial network; it validates the model/oracles, it is not the proof')
    e2e_props.run_family(ctx, 'mixed', [e2e.o_c08], 40, 1200)
    e2e_props.run_family(ctx, 'sink', [e2e.o_c08, e2e.o_c08_prompt], 24, 800)
