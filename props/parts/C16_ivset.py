"""C16 part: `IntervalSet` (quic/s2n-quic-core/src/interval_set) vs a plain reference set."""
from vlib import *

PROP_MODULES = ["QuicProofs.Props.C16IntervalSet"]
BRIDGES = ["QuicProofs.Bridge.AckRanges"]


def run(ctx):
    ctx.rule += (" | ivset: histories over small alphabets (offsets from 0, 1000, 2^62-6, u64::MAX-13; limits 1,2,3,5,10,none; "
                 ">=16-interval sets for the binary-search path) plus the state-space closure described under `exhaustive_ivset`; "
                 "non-trivial = the op was accepted (not limit/invalid) and is not a configuration op; distinct by (op line, resulting interval list)")
    ctx.assumptions += ["ivset: Lean model QuicModel.Data.IntervalSet transcribes insert.rs/remove.rs/intersection.rs/mod.rs; usize::MAX sentinel of "
                        "`replace_range` modelled as `none`; u64 saturation sites argued dead (file header) and exercised by D at u64::MAX",
                        "ivset: `count()` usize overflow for the full u64 range is not modelled (generator keeps sets small)"]
    step_extract(ctx, ["ack_ranges"])
    lean_ok = step_lean(ctx, PROP_MODULES, BRIDGES)
    ok, out = cargo_build("vh-core")
    if not ok:
        ctx.oblige("build", "vh-core builds against /repo's working tree", False, out)
        return
    if not lean_ok:
        ctx.escalated = True
    step_diff(ctx, "vh-core", "ivset", "interval_set", tier_n(ctx, 60000, 600000))
    import gen.interval_set as g
    if ctx.tier == "thorough" or ctx.deep:
        ctx.exhaustive = True
        sizes = {str(l): g.closure(l, list(range(10)))[1] for l in (None, 1, 2, 3, 5)}
        ctx.extra["exhaustive_ivset"] = {
            "what": "breadth-first closure of the state graph: every (reachable state, op) pair for ops = ins/rm/insert_front of every "
                    "sub-interval of {0..9} + pop_min, limits none/1/2/3/5, until no new state appears; the complete state is printed and "
                    "checked after every op, hence every op sequence of any length over this alphabet is covered; plus all 2^14 pairs of "
                    "subsets of {0..6} under union/difference/intersection/intersection_iter",
            "reachable_states_per_limit": sizes}
    else:
        ctx.extra["exhaustive_ivset"] = {"what": "quick tier: the same closure over the 5-value universe {0..4} (limits none/1/2/3) and 250 random subset pairs of {0..5}"}
