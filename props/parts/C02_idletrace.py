"""C02 part (tie T, trace conformance): every idle-timeout close of a real endpoint happens inside the window the Lean
idle-timer model (lean/QuicModel/Conn/IdleTimer.lean via the acceptor lean/QuicModel/Drivers/IdleTrace.lean) allows:
deadline = restart + max(negotiated idle, 3 x PTO at the restart instant), restart = last processed packet or the first
ack-eliciting packet sent after it; not before the deadline (1 ms timer granularity), at most 60 ms after it."""
import e2e_ops_idle
import e2e_props
from vlib import DRIVER, run_lines


def run(ctx):
    stats = {"endpoints": 0, "idle_closes_checked": 0, "skipped_handshake_incomplete": 0, "ops": 0}

    def o_idle_trace(tr):
        bad = []
        if tr.end is None or tr.end[1] != "ok":
            return bad          # termination itself is C02_e2e's oracle
        for ep in ("c", "s"):
            ops = e2e_ops_idle.ops_for(tr, ep)
            if ops is None:
                stats["skipped_handshake_incomplete"] += 1
                continue
            rc, out, err = run_lines([DRIVER, "idle-trace"], ops)
            if rc != 0 or len(out) != len(ops):
                bad.append(("e2e:c02:idle-trace:acceptor-failed", f"lean driver idle-trace rc={rc} {len(out)}/{len(ops)} lines {err[-200:]}"))
                continue
            stats["endpoints"] += 1
            stats["ops"] += len(ops)
            ctx.evaluations += len(ops)
            for op, o in zip(ops, out):
                if op.startswith("closed") and op.endswith(" idle"):
                    stats["idle_closes_checked"] += 1
                    ctx.nontrivial.add(f"idle-trace|{ep}|{tr.params.get('seed')}|{op}")
                if o.startswith("ok"):
                    continue
                if o.startswith("err"):
                    kind = o.split(" ", 1)[1]
                    t = op.split(" ")[1]
                    # the candidate deadlines the model held at that point: replay up to the previous op
                    prev = [x for x, y in zip(ops, out) if x.split(" ")[0] in ("rx", "tx", "metrics")]
                    last = [y for x, y in zip(ops, out) if x.split(" ")[0] in ("rx", "tx")][-1:] or ["?"]
                    bad.append((f"e2e:c02:idle-trace:{kind.replace(' ', '-')}",
                                f"endpoint {ep} reported IdleTimerExpired at {t}us; the idle-timer model's deadline was {last[0][3:]}us "
                                f"({kind}; idle timeout {e2e_ops_idle.idle_ms(tr)}ms, {len(prev)} timer-relevant records replayed)"))
                else:
                    bad.append(("e2e:c02:idle-trace:bad-op", f"acceptor answered {o!r} to {op!r}"))
        return bad

    traces = e2e_props.run_family(ctx, "blackhole", [o_idle_trace], 24, 400, salt="/idle",
                                  name="T:idle-trace: the Lean idle-timer model accepts the idle closes of real endpoints (blackhole family)")
    ctx.extra["idle_trace"] = stats
    if traces:
        ctx.oblige("correspond", f"T:idle-trace exercised the model: {stats['idle_closes_checked']} idle-timeout closes checked on "
                   f"{stats['endpoints']} endpoint traces", stats["idle_closes_checked"] > 0,
                   "no scenario ended with an idle timeout: the acceptor was not exercised")
