"""C02 part (tie T, trace conformance): every idle-timeout close of a real endpoint happens inside the window the Lean
idle-timer model (lean/QuicModel/Conn/IdleTimer.lean via the acceptor lean/QuicModel/Drivers/IdleTrace.lean) allows:
deadline = restart + max(negotiated idle, 3 x PTO at the restart instant), restart = last processed packet or the first
ack-eliciting packet sent after it; not before the deadline (1 ms timer granularity), at most 60 ms after it."""
import e2e_ops_idle
import e2e_props
from vlib import DRIVER, run_lines


def fam_blackhole_idle(rng, i):
    """`blackhole` family restricted to what exercises the idle timer: the handshake completes, then a total blackhole
    (mostly permanent) in one or both directions; idle timeouts from well below to well above 3 x PTO"""
    start = rng.choice([70, 120, 300, 800, 1500])
    idle = rng.choice([400, 1000, 2000, 5000, 12000])
    p = {
        "seed": rng.randrange(1, 2**40), "bidi": rng.choice([1, 2]), "uni": rng.choice([0, 1]), "size": rng.choice([2000, 30000, 120000]),
        "chunk": 2000, "delay_ms": rng.choice([5, 10, 25, 60]),
        "s.bidi_remote": rng.choice([0, 500, 4000]), "s.data_window": rng.choice([0, 3000]), "s.max_bidi_remote": rng.choice([0, 1]),
        "c.max_idle_ms": idle, "s.max_idle_ms": idle,
        "drop_pm": rng.choice([0, 50]), "faults_until_ms": 1500, "deadline_ms": 200000,
    }
    d = rng.choice([0, 1, 2])
    end = 100000000 if rng.random() < 0.8 else start + rng.choice([200, 1500])
    p["bh"] = f"{start}:{end}:{d}"
    # one third of the scenarios have a pure receiver (it only sends ACKs / MAX_* updates): its last idle-timer
    # restart is a processed packet, not a transmission
    shape = i % 3
    if shape == 1:
        p.update({"bidi": 0, "uni": rng.choice([1, 2]), "suni": 0, "size": rng.choice([120000, 400000])})
    elif shape == 2:
        p.update({"bidi": 0, "uni": 0, "suni": rng.choice([1, 2]), "size": rng.choice([120000, 400000])})
    return e2e_props._nz(p)


e2e_props.FAMILIES.setdefault("blackhole_idle", fam_blackhole_idle)


def run(ctx):
    stats = {"endpoints": 0, "idle_closes_checked": 0, "skipped_handshake_incomplete": 0, "ops": 0}

    def o_idle_trace(tr):
        bad = []
        if tr.end is None or tr.end[1] != "ok":
            return bad          # termination itself is C02_e2e's oracle
        for ep in ("c", "s"):
            ops = e2e_ops_idle.ops_for(tr, ep)
            if ops is None:
                stats["skipped_handshake_incomplete"] += 1
                continue
            rc, out, err = run_lines([DRIVER, "idle-trace"], ops)
            if rc != 0 or len(out) != len(ops):
                bad.append(("e2e:c02:idle-trace:acceptor-failed", f"lean driver idle-trace rc={rc} {len(out)}/{len(ops)} lines {err[-200:]}"))
                continue
            stats["endpoints"] += 1
            stats["ops"] += len(ops)
            ctx.evaluations += len(ops)
            for op, o in zip(ops, out):
                if op.startswith("closed") and op.endswith(" idle"):
                    stats["idle_closes_checked"] += 1
                    ctx.nontrivial.add(f"idle-trace|{ep}|{tr.params.get('seed')}|{op}")
                if o.startswith("ok"):
                    continue
                if o.startswith("err"):
                    kind = o.split(" ", 1)[1]
                    t = op.split(" ")[1]
                    # the candidate deadlines the model held at that point: replay up to the previous op
                    prev = [x for x, y in zip(ops, out) if x.split(" ")[0] in ("rx", "tx", "metrics")]
                    last = [y for x, y in zip(ops, out) if x.split(" ")[0] in ("rx", "tx")][-1:] or ["?"]
                    bad.append((f"e2e:c02:idle-trace:{kind.replace(' ', '-')}",
                                f"endpoint {ep} reported IdleTimerExpired at {t}us; the idle-timer model's deadline was {last[0][3:]}us "
                                f"({kind}; idle timeout {e2e_ops_idle.idle_ms(tr)}ms, {len(prev)} timer-relevant records replayed)"))
                else:
                    bad.append(("e2e:c02:idle-trace:bad-op", f"acceptor answered {o!r} to {op!r}"))
        return bad

    traces = e2e_props.run_family(ctx, "blackhole_idle", [o_idle_trace], 24, 400,
                                  name="T:idle-trace: the Lean idle-timer model accepts the idle closes of real endpoints (blackhole family, handshake completed)")
    ctx.extra["idle_trace"] = stats
    if traces:
        ctx.oblige("correspond", f"T:idle-trace exercised the model: {stats['idle_closes_checked']} idle-timeout closes checked on "
                   f"{stats['endpoints']} endpoint traces", stats["idle_closes_checked"] > 0,
                   "no scenario ended with an idle timeout: the acceptor was not exercised")
