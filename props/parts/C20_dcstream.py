"""C20 part: s2n-quic-dc streams deliver exactly what was written, or fail within the idle timeout.

  * theorems  QuicProofs.Props.C20DcStream (sender/receiver SKELETONS, composition = instance of C01) — PARTIAL
  * tie G     tools/extractors/dc_stream.py -> QuicProofs.Bridge.DcStream (+ the reassembler and duplicate-window
              bridges the C01/C16 instances rest on)
  * tie T     harness/vh-dc `dc_stream_sim`: REAL client+server streams in the bach simulation under an adversarial
              network (UDP) and over loopback TCP; one process per scenario; the python oracle
              (tools/gen/dc_stream_sim.py) judges the implementation's result lines, the Lean driver
              `dc_stream_sim` states what the theorems demand of each scenario and is compared where it is exact.
"""
import concurrent.futures
import subprocess
import time

from vlib import *

PROP_MODULES = ["QuicProofs.Props.C20DcStream"]
BRIDGES = ["QuicProofs.Bridge.DcStream", "QuicProofs.Bridge.Reassembler", "QuicProofs.Bridge.SlidingWindow"]
HARNESS = "vh-dc"
COMP = "dc_stream_sim"
WORKERS = 3


def _run_one(line, timeout_s):
    """one scenario = one process (a wedged runtime cannot take the other scenarios with it)"""
    t0 = time.time()
    try:
        p = subprocess.run([harness_bin(HARNESS), COMP], input=line + "\n", stdout=subprocess.PIPE, stderr=subprocess.PIPE,
                           text=True, timeout=timeout_s, env={**os.environ, "S2N_LOG": "off"})
        out = p.stdout.strip().split("\n")[0] if p.stdout.strip() else f"panic process-exit-{p.returncode}@?:0"
    except subprocess.TimeoutExpired:
        out = "hang-process"
    return out, time.time() - t0


def _run_all(lines):
    outs = [None] * len(lines)
    secs = [0.0] * len(lines)

    def job(i):
        p = dict(t.split("=", 1) for t in lines[i].split()[1:])
        # real-time budget: virtual deadlines cost nothing, TCP ones are real
        budget = 240 + (int(p.get("deadline_ms", "0")) // 1000 if p.get("proto") == "tcp" else 0)
        outs[i], secs[i] = _run_one(lines[i], budget)

    with concurrent.futures.ThreadPoolExecutor(max_workers=WORKERS) as ex:
        list(ex.map(job, range(len(lines))))
    return outs, secs


def _model_expectation_ok(op, impl, model):
    """where the model's demand is exact, the implementation's result must be it"""
    import gen.dc_stream_sim as g
    if not model.startswith("ok "):
        return model == impl  # bad-op on both sides
    m = dict(t.split("=", 1) for t in model.split()[1:])
    o = g.parse_out(impl)
    if o is None:
        return False
    if m["expect"] != "exact":
        # prefix: never more than planned, never a clean EOF on less than the peer wrote
        return int(o["c2s"]["r"]) <= int(m["c2s"]) and int(o["s2c"]["r"]) <= int(m["s2c"])
    c, s = o["c2s"], o["s2c"]
    return (c["w"] == m["c2s"] and c["r"] == m["c2s"] and c["eof"] == "clean" and c["cmp"] == "ok" and
            s["w"] == m["s2c"] and s["r"] == m["s2c"] and s["eof"] == "clean" and s["cmp"] == "ok" and
            o["cerr"] == "-" and o["serr"] == "-" and o["end"] == "done")


def step_sim(ctx, n):
    import gen.dc_stream_sim as g
    rng = ctx.rng(COMP)
    lines = g.gen(rng, n, ctx.tier)
    outs, secs = _run_all(lines)
    # a process that never came back is a hang of the real code (or of the harness): keep the oracle's vocabulary
    outs = [o if o != "hang-process" else "panic process-did-not-terminate@harness:0" for o in outs]
    ctx.evaluations += len(lines)
    ctx.traces_validated += sum(1 for o in outs if o.startswith("ok "))
    for op, out in zip(lines, outs):
        k = g.nontrivial(op, out)
        if k is not None:
            ctx.nontrivial.add(COMP + "|" + k)
        p = g.parse_op(op)
        ctx.count(f"{COMP}:{p['proto']}:{p['client_op']}/{p['server_op']}:{out.split(' ')[0]}")
        ctx.count(f"{COMP}:mtu>={16384 if int(p['mtu']) >= 16384 else 1250}")
        if int(p["drop_pm"]) or int(p["dup_pm"]) or int(p["reorder_pm"]):
            ctx.count(f"{COMP}:with-network-faults")
    ctx.extra["dc_stream_sim_seconds"] = {"total": round(sum(secs), 1), "max": round(max(secs), 1)}
    # model side: what the theorems demand of each scenario
    rc, l_out, l_err = run_lines([DRIVER, COMP], lines)
    if rc != 0 or len(l_out) != len(lines):
        ctx.oblige("build", f"lean driver {COMP} answered every scenario", False, l_err[-1000:])
        l_out = ["?"] * len(lines)
    for j in range(min(3, len(lines))):
        k = (j * 7919) % len(lines)
        ctx.sample({"component": COMP, "op": lines[k][:400], "impl": outs[k][:400], "model": l_out[k][:200]})
    # the property oracle on the implementation's own results
    fails = g.oracle(lines, outs)
    new_fails, seen = [], set()
    for (i, sig, msg) in fails:
        if sig in seen:
            continue
        seen.add(sig)
        if ctx.violation(sig, msg, {"kind": "oracle", "harness": HARNESS, "component": COMP, "ops": [lines[i]],
                                    "impl_output": outs[i], "model_output": l_out[i], "failing_op": lines[i]}):
            new_fails.append((i, sig, msg))
    known = sorted(seen - {s for _, s, _ in new_fails})
    ctx.oblige("oracle", f"T:{HARNESS}/{COMP}: {len(lines)} real client/server scenarios satisfy the C20 oracle"
               + (f" [known findings reproduced: {known}]" if known else ""),
               not new_fails, "; ".join(f"{lines[i][:160]} => {m}" for i, _, m in new_fails[:5]))
    if new_fails:
        ctx.obligations[-1]["explained"] = True
    bad_i = {i for i, _, _ in fails}
    mism = [i for i in range(len(lines)) if i not in bad_i and not _model_expectation_ok(lines[i], outs[i], l_out[i])]
    ctx.oblige("correspond", f"T:{HARNESS}/{COMP}: implementation results are what the model demands ({len(lines)} scenarios)",
               not mism, "; ".join(f"{lines[i][:200]} impl={outs[i][:200]} model={l_out[i]}" for i in mism[:3]))
    if mism:
        i = mism[0]
        ctx.obligations[-1]["replay"] = {"component": COMP, "harness": HARNESS, "ops": [lines[i]], "impl": [outs[i]], "model": [l_out[i]]}
    # determinism: a fixed line gives a fixed result line (UDP scenarios: virtual time, seeded network)
    det = [i for i, l in enumerate(lines) if "proto=udp" in l and outs[i].startswith("ok ")][3:6]
    again, _ = _run_all([lines[i] for i in det])
    diff = [lines[i] for i, o in zip(det, again) if o != outs[i]]
    ctx.oblige("determinism", f"T:{HARNESS}/{COMP}: re-running {len(det)} simulated scenarios reproduces the result lines", not diff,
               "; ".join(diff[:2]))
    return lines, outs


def run(ctx):
    ctx.rule = ("one scenario = one real s2n-quic-dc client/server pair (stream::testing::{Client,Server}) exchanging keyed "
                "position-dependent payloads; UDP scenarios run in the bach simulation with a seeded drop/duplicate/reorder "
                "network (fault prefix, then clean), TCP scenarios over kernel loopback; a scenario is non-trivial when bytes were "
                "delivered or an error was observed, and distinct when its op line differs")
    ctx.level = "proof"
    ctx.explanation = (
        "PARTIAL: the Lean theorems are about sender/receiver SKELETONS (Dc.StreamSend/Dc.StreamRecv state which Rust functions "
        "each definition abstracts); the reassembly/duplicate-window parts are the C01/C16 models tied by D; packet protection is "
        "the ideal-primitive assumption; TCP transport, runtimes and real time are not modelled. The simulation (tie T) samples "
        "network behaviours and interleavings on the real code; the unbounded claim is the composition theorem dc_end_to_end.")
    ctx.assumptions += [
        "Lean kernel; tools/extractors/dc_stream.py regex extraction; vh-dc harness, bach 0.1.2 simulation, python oracle",
        "ideal-primitive assumption: a stream packet opens iff the peer sealed it (Packet.authentic)",
        "the simulated network is harness/vh-dc's `Adversary` (bach's `Fixed` queue plus seeded per-packet drop/duplicate/delay); "
        "TCP scenarios use the kernel's loopback TCP (no fault injection possible there)",
        "idle timeout = dc::testing::TEST_APPLICATION_PARAMS.max_idle_timeout (30 s, bridged by idle_timeout_eq); slack 2.5 s",
    ]
    step_extract(ctx, ["dc_stream", "reassembler", "sliding_window"])
    lean_ok = step_lean(ctx, PROP_MODULES, BRIDGES)
    ok, out = cargo_build(HARNESS)
    if not ok:
        ctx.oblige("build", "vh-dc builds against /repo's working tree", False, out)
        return
    if not lean_ok:
        ctx.escalated = True
    step_sim(ctx, tier_n(ctx, 36, 500))
