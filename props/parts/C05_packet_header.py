"""C05 part: packet headers (RFC 9000 §17.2 / §17.3, RFC 8999): the protected-packet decoder `ProtectedPacket::decode`, the
coalesced-packet loop, and the header encoders (Version Negotiation, Retry, `encode_packet` for Initial / 0-RTT / Handshake / 1-RTT).
Decoding is total and never panics (`header_decode_total`), every decoded packet consumes at least one byte so the coalesced-packet
loop terminates (`header_decode_consumes`, `decodeAll_terminates`), the decoder agrees with the independent RFC transcription on
version-1 / Version Negotiation / short-header input outside two documented connection-ID-length deviations
(`impl_eq_rfc_header_partial`, `impl_eq_rfc_header_counterexample_*`, `impl_eq_rfc_header_with_endpoint_check`), Length = packet number +
payload (`long_header_len_exact`), and what the encoders emit decodes back (`header_roundtrip_*`)."""
from vlib import *

PROP_MODULES = ["QuicProofs.Props.C05PacketHeader"]
BRIDGES = ["QuicProofs.Bridge.PacketHeader"]


def run(ctx):
    ctx.rule += (" | packet_header: grammar-generated packets of every kind (CID lengths 0/1/8/20/21/255, token lengths 0/1/63/64/300, "
                 "Length equal / shorter / longer than the remaining bytes, minimal and non-minimal varints, versions 0 / 1 / draft-29 / unknown), "
                 "every first byte, every truncation and single-byte mutations of valid packets, coalesced datagrams, encoder calls; "
                 "a case is non-trivial when the implementation returned a value, distinct by op line")
    ctx.assumptions += ["packet_header: Lean model Codec.PacketHeader transcribes packet/{mod,decoding,long,initial,zero_rtt,handshake,retry,"
                        "version_negotiation,short,encoding}.rs by hand (tag constants, the 20-byte limit, the reader each decoder calls for "
                        "DCID/SCID, the Retry tag length re-extracted by tools/extractors/packet_header.py); the harness drives "
                        "`ProtectedPacket::decode` with a `usize` connection-ID validator and `encode_packet` with crypto::testing keys "
                        "(identity encryption, zero header-protection mask); header protection / AEAD are C06; RFC 8999 is not available "
                        "offline, its invariants are taken from their restatement in RFC 9000 §17.2 / §17.2.1"]
    step_extract(ctx, ["packet_header", "varint"])
    lean_ok = step_lean(ctx, PROP_MODULES, BRIDGES)
    ok, out = cargo_build("vh-core")
    if not ok:
        ctx.oblige("build", "vh-core builds against /repo's working tree", False, out)
        return
    if not lean_ok:
        ctx.escalated = True
    step_diff(ctx, "vh-core", "packet_header", "packet_header", tier_n(ctx, 6000, 300000))
    # Codec (through the abstraction `abs`) vs the Lean RFC transcription on the same inputs:
    # executable twin of impl_eq_rfc_header_partial and of the two counterexample theorems
    import gen.packet_header as g
    lines = [l for l in g.gen(ctx.rng("packet_header-rfc"), tier_n(ctx, 4000, 150000), ctx.tier) if l.startswith("dec ")]
    rc, a, _ = run_lines([DRIVER, "packet_header-abs"], lines)
    rc, b, _ = run_lines([DRIVER, "packet_header-rfc"], lines)
    ctx.evaluations += len(lines)

    def cids_gt20(y):
        f = dict(kv.split("=", 1) for kv in y.split()[2:] if "=" in kv)
        return max(len(f.get("dcid", "-").replace("-", "")), len(f.get("scid", "-").replace("-", ""))) > 40

    def same(op, x, y):
        if x == y:
            return True
        # the two documented deviations (proved as impl_eq_rfc_header_counterexample_initial / _vn)
        if x.startswith("ok initial v=1 ") and y == "err" and cids_gt20(x):
            ctx.count("packet_header-rfc:deviation:initial-cid-gt-20")
            return True
        if x == "err" and y.startswith("ok vn ") and cids_gt20(y):
            ctx.count("packet_header-rfc:deviation:vn-cid-gt-20")
            return True
        # other versions: the RFC knows the RFC 8999 fields only; the code may drop the packet
        if y.startswith("ok unsupported ") and x == "err":
            return True
        return False
    bad = [(l, x, y) for l, x, y in zip(lines, a, b) if not same(l, x, y)]
    ctx.oblige("correspond", f"Lean Codec.PacketHeader (via abs) and Rfc.PacketHeader agree on {len(lines)} generated inputs "
               "(outside the two documented connection-ID-length deviations)",
               len(a) == len(lines) and len(b) == len(lines) and not bad,
               "; ".join(f"{l[:160]}: {x[:160]} vs {y[:160]}" for l, x, y in bad[:3]))
