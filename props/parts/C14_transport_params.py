"""C14 part: transport parameters are accepted exactly when RFC 9000 §7.4/§18.2 allow them, and the limits
derived from them are the declared ones (defaults for absent parameters).

Readings of the RFC used by BOTH independent references (Lean `Rfc.TransportParams`, python `gen/transport_params.py`):
  * max_udp_payload_size valid = [1200, 65527] ("maximum permitted UDP payload of 65527");
  * original_destination_connection_id valid length = [8, 20] (§7.2: it can never match otherwise);
  * a preferred_address whose IPv4 and IPv6 parts are both all-zero is not addressed by the RFC: the oracle
    accepts either behaviour (the Lean table rejects it, as the code does);
  * a repeated parameter that the endpoint does not support (unknown id) may be ignored (§7.4.2) — only
    repeated *defined* parameters must fail;
  * dc_supported_versions / mtu_probing_complete_support are private parameters the endpoint supports; their
    value format is the owner's (transcribed from the code's doc comments), not "unknown ⇒ ignore".
Connection-ID authentication (session_context.rs, private to s2n-quic-transport) is modelled in
`Conn.TpAuth` and proved (`tp_cid_auth`); it has no differential tie from vh-core - its tie is end to end, on real
endpoints: props/parts/C14_auth_e2e.py (family `tpauth`)."""
from vlib import *

PROP_MODULES = ["QuicProofs.Props.C14TransportParams"]
BRIDGES = ["QuicProofs.Bridge.TransportParams", "QuicProofs.Bridge.VarInt"]


def soft_error_kind(op, impl, model):
    """every decode error becomes TRANSPORT_PARAMETER_ERROR("Invalid transport parameters") in
    session_context.rs; which DecoderError variant it was is an implementation detail (soft)"""
    return impl.startswith("err ") and model.startswith("err ")


def run(ctx):
    ctx.rule = ("blocks are grammar-generated from the python RFC table (every integer parameter at/inside/outside each bound in every "
                "varint length, every connection-id/token/flag length, preferred_address variants and all truncations, unknown and "
                "GREASE ids with lengths 0..20, all sequences of up to 2 of 23 items / 3 of 8 / 4 of 5 incl. duplicates and both roles, "
                "rotations and every prefix of a full block) plus random structured blocks, byte mutations and random bytes; a case is "
                "non-trivial when the implementation accepted the block (values/defaults/limits are then compared) and distinct when "
                "its op line differs")
    ctx.assumptions += [
        "Lean kernel; tools/extractors/transport_params.py (regex extraction of the field table, validator operators/constants, "
        "check order); vh-core harness; python generator and RFC oracle",
        "TLS carriage of the extension and the connection-id authentication in s2n-quic-transport/src/space/session_context.rs are "
        "modelled (Conn.TpAuth) but not differentially tied from vh-core (private to the crate); the connection-id authentication is tied "
        "end to end by the part C14_auth_e2e (family tpauth)",
        "the DecoderError variant of a rejected block is a soft observable (all map to TRANSPORT_PARAMETER_ERROR)"]
    step_extract(ctx, ["transport_params", "varint"])
    lean_ok = step_lean(ctx, PROP_MODULES, BRIDGES)
    ok, out = cargo_build("vh-core")
    if not ok:
        ctx.oblige("build", "vh-core builds against /repo's working tree", False, out)
        return
    if not lean_ok:
        ctx.escalated = True
    n = tier_n(ctx, 3000, 150000)
    lines, r_out, l_out, mism = step_diff(ctx, "vh-core", "tp", "transport_params", n, soft=soft_error_kind)
    # executable twin of `tp_accept_iff_rfc`: the model with RFC-conformant rows and the Lean RFC table agree on
    # accept/reject for every generated block
    decs = [l for l in lines if l.startswith("dec ")]
    rc, a, _ = run_lines([DRIVER, "tp-conformant"], decs)
    rc, b, _ = run_lines([DRIVER, "tp-rfc"], decs)
    ctx.evaluations += len(decs)
    bad = [(l, x, y) for l, x, y in zip(decs, a, b) if x.startswith("ok") != y.startswith("ok")]
    ctx.oblige("correspond", f"Lean Codec.TransportParams (rfcKnobs) and Rfc.TransportParams agree on accept/reject ({len(decs)} blocks)",
               not bad and len(a) == len(decs) == len(b), "; ".join(f"{l}: {x[:40]} vs {y}" for l, x, y in bad[:3]))
    # where the pinned model differs from the Lean RFC table, the python oracle (independent) must have flagged the
    # same block on the implementation's output — i.e. the two references agree with each other
    rc, c, _ = run_lines([DRIVER, "tp"], decs)
    import gen.transport_params as g
    py = {}
    for l in decs:
        t = l.split()
        py[l] = g.rfc_judge(t[1], g.unhex(t[2]))[0]
    disagree = [(l, y) for l, y in zip(decs, b) if py[l] is not None and py[l] != y.startswith("ok")]
    ctx.oblige("correspond", f"python RFC oracle and Lean Rfc.TransportParams.accepts agree ({len(decs)} blocks)", not disagree,
               "; ".join(f"{l}: lean {y}, python {py[l]}" for l, y in disagree[:3]))
    dev = sorted({l for l, x, y in zip(decs, c, b) if x.startswith("ok") != y.startswith("ok")})
    ctx.extra["pinned_model_vs_rfc_deviating_blocks"] = len(dev)
    ctx.count("tp:pinned-model-deviates-from-rfc", len(dev))
