"""C08 part: which frames are ack-eliciting / count as in flight (RFC 9002 §2) — tie G + table theorem.
A deviation is itself a concrete failing input (the frame type), reported with a stable signature."""
import os
import re

from vlib import *

RFC_NON_ELICITING = {"Ack", "Padding", "ConnectionClose"}
NOT_CC = {"Ack", "Padding"}


def run(ctx):
    rep = step_extract(ctx, ["frame_classes"])
    step_lean(ctx, ["QuicProofs.Props.C08AckEliciting"], ["QuicProofs.Bridge.FrameClasses"], extra_targets=())
    gen = open(os.path.join(LEAN_DIR, "QuicModel", "Generated", "FrameClasses.lean")).read()
    bad = []
    for table, rfc_false, what in (("ackEliciting", RFC_NON_ELICITING, "ack-eliciting"), ("congestionControlled", NOT_CC, "congestion-controlled")):
        m = re.search(r"def " + table + r" : List \(String × Bool\) := \[(.*?)\]\n", gen, re.S)
        rows = re.findall(r'\("(\w+)", (true|false)\)', m.group(1)) if m else []
        ctx.evaluations += len(rows)
        for name, val in rows:
            ctx.nontrivial.add(f"frameclass|{table}|{name}")
            want = name not in rfc_false
            if (val == "true") != want:
                bad.append((f"frameclass:{table}:{name}", f"frame {name} is classified {what}={val}, RFC 9002 §2 says {str(want).lower()}"))
    new = [b for b in bad if ctx.violation(b[0], b[1], {"kind": "table", "failing_input": b[0]})]
    ctx.oblige("oracle", "frame classification tables equal RFC 9002 §2 for every frame type", not new, "; ".join(m for _, m in new))
    if new:
        ctx.obligations[-1]["explained"] = True
    ctx.sample({"component": "frame-classes", "rows": rep.get("items")})
