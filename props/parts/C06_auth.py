"""C06 part (theorems + tie G + crypto differential): only authentic packets have effect, each at most once.

LEVEL: PARTIAL.  The Lean theorems are about the receive-pipeline model `Compose.Auth`; the cryptographic half is
the ideal-AEAD ASSUMPTION, exercised here on the real primitives (`packet_protection`: every byte of genuine
protected packets flipped, every truncation, splices, another packet-number expansion base, RFC 9001 Appendix A
known answers — for every cipher suite of s2n-quic-crypto and for Initial keys)."""
from vlib import *

PROP_MODULES = ["QuicProofs.Props.C06Auth"]
BRIDGES = ["QuicProofs.Bridge.Auth"]


def run(ctx):
    ctx.rule = (ctx.rule + " | " if ctx.rule else "") + (
        "packet_protection: genuine short-header packets (all 4 pn lengths, both key phases/spin bits, DCID 0/8/20 bytes, payloads "
        "24..1200) under seeded secrets for TLS_AES_128_GCM_SHA256 / TLS_AES_256_GCM_SHA384 / TLS_CHACHA20_POLY1305_SHA256 and Initial "
        "packets under Initial keys, sealed by the real encode_packet; every byte x masks {01,80,ff}, every truncation, splices at "
        "every cut, reopen with a shifted packet-number base, RFC 9001 A.2/A.3/A.5 vectors; a case is non-trivial when the "
        "implementation answered ok (opened/rejected/layout) and distinct when the op line differs")
    ctx.assumptions += [
        "C06 is PARTIAL: IDEAL AEAD is an assumption of the Lean model (Datagram.authentic is decided by the environment: true iff the bytes are "
        "exactly what the peer's seal produced under the current keys); AEAD, header-protection cipher and HKDF (aws-lc) are not modelled, only "
        "exercised by the packet_protection differential",
        "which key is current (key update) and the value of the integrity limit are C15; the model takes the limit as a parameter",
        "tools/extractors/auth.py regex extraction of call order / shapes (a harmless rewrite can break a bridge)",
        "frame processing is abstracted to `framesOk`; what frames do to streams is C01/C04/C12"]
    step_extract(ctx, ["auth", "keyset"])
    lean_ok = step_lean(ctx, PROP_MODULES, BRIDGES)
    ok, out = cargo_build("vh-core")
    if not ok:
        ctx.oblige("build", "vh-core (with s2n-quic-crypto) builds against /repo's working tree", False, out)
        return
    if not lean_ok:
        ctx.escalated = True
    n = tier_n(ctx, 3000, 60000)
    lines, r_out, l_out, mism = step_diff(ctx, "vh-core", "packet_protection", "packet_protection", n)
    # where the real pipeline rejected (decode / unprotect / decrypt / …): same ops, verbose variant, not diffed
    rc, s_out, _ = run_lines([harness_bin("vh-core"), "packet_protection_stages"], lines)
    stages = {}
    for op, o in zip(lines, s_out):
        t = o.split()
        if len(t) >= 3 and t[1] == "rejected":
            k = f"{op.split()[0]}:{op.split()[1]}:{t[2]}"
            stages[k] = stages.get(k, 0) + 1
    ctx.extra["packet_protection_rejection_stage"] = dict(sorted(stages.items()))
    suites = sorted({op.split()[1] for op, o in zip(lines, r_out) if op.startswith("open ") and o == "ok opened"})
    ctx.oblige("correspond", "packet_protection: genuine packets of every cipher suite (aes128, aes256, chacha20) and of the Initial keys were sealed and re-opened",
               suites == ["aes128", "aes256", "chacha20", "initial"], str(suites))
    kats = [(op.split()[1] + ":" + op.split()[2], o) for op, o in zip(lines, r_out) if op.startswith("kat ")]
    ctx.extra["packet_protection_kats"] = [k for k, _ in kats]
    ctx.oblige("correspond", f"packet_protection: {len(kats)} RFC 9001 Appendix A sample packets open to the RFC payload (model and implementation)",
               len(kats) >= 2 and all(o == "ok opened" for _, o in kats), str(kats)[:300])
