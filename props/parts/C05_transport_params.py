"""C05 part: the transport-parameter block codec (RFC 9000 §18, Figures 20/21): decoding is total, the
encoder omits defaults and announces the size it writes, decode∘encode is the identity on parameter sets
(`tp_roundtrip`), the layout is the RFC's (`tp_parse_eq_rfc` via the shared item parser)."""
from vlib import *

PROP_MODULES = ["QuicProofs.Props.C05TransportParams"]
BRIDGES = ["QuicProofs.Bridge.TransportParams"]


def soft_error_kind(op, impl, model):
    return impl.startswith("err ") and model.startswith("err ")


def run(ctx):
    ctx.assumptions += ["transport parameters: Lean kernel; tools/extractors/transport_params.py; vh-core harness component `tp` "
                        "(decode → re-encode → decode on the real Client/ServerTransportParameters)"]
    step_extract(ctx, ["transport_params", "varint"])
    lean_ok = step_lean(ctx, PROP_MODULES, BRIDGES)
    ok, out = cargo_build("vh-core")
    if not ok:
        ctx.oblige("build", "vh-core builds against /repo's working tree", False, out)
        return
    if not lean_ok:
        ctx.escalated = True
    step_diff(ctx, "vh-core", "tp", "transport_params_codec", tier_n(ctx, 1500, 100000), soft=soft_error_kind,
              name="D:vh-core/tp(codec)")
