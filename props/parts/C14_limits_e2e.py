"""C14 part (tie T): "the limits the connection then operates under are exactly the ones the peer declared" — observed end to
end: in scenarios whose endpoints DECLARE asymmetric limits (stream counts per stream type, per-direction stream windows,
connection window; read from the TLS messages on the wire), everything an endpoint sends stays within what its peer declared
(oracle `o_c03` of C03: per-type stream-count limits, stream / connection data limits, RESET_STREAM final sizes). A declared
limit that is mapped to the wrong internal limit (e.g. the unidirectional stream count seeded from the bidirectional one)
shows up as a frame beyond the declared limit."""
import e2e
import e2e_props


def fam_c14_limits(rng, i):
    """flow-control scenarios with bidirectional and unidirectional limits that differ from each other"""
    p = e2e_props.fam_flowctl(rng, i)
    # stream-count limits: bidi generous, uni tight (or the other way round), more streams than the tight one allows at once
    tight = rng.choice([1, 2, 3])
    wide = rng.choice([20, 50])
    if i % 2 == 0:
        p["s.max_bidi_remote"], p["s.max_uni_remote"] = wide, tight
        p["uni"] = tight + rng.choice([2, 4])
        p["bidi"] = max(1, int(p.get("bidi", 1)))
    else:
        p["s.max_bidi_remote"], p["s.max_uni_remote"] = tight, wide
        p["bidi"] = tight + rng.choice([2, 4])
        p["uni"] = max(1, int(p.get("uni", 1)))
    p["c.max_uni_remote"] = rng.choice([1, 2, 30])
    p["suni"] = rng.choice([2, 4])
    return e2e_props._nz(p)


e2e_props.FAMILIES.setdefault("c14-limits", fam_c14_limits)


def run(ctx):
    ctx.assumptions.append("C14_limits_e2e: tie T samples real client+server runs; the declared parameters are parsed from the TLS messages "
                           "in CRYPTO frames (tools/quicparse.py), the oracle is the sender-side limit oracle of C03")
    e2e_props.run_family(ctx, "c14-limits", [e2e.o_c03], 24, 400,
                         name="T:c14-limits: with asymmetric declared limits every frame an endpoint sends stays within the limits its peer declared (o_c03)")
    e2e_props.run_family(ctx, "flowctl", [e2e.o_c03], 24, 400,
                         name="T:flowctl: every frame an endpoint sends stays within the limits its peer declared (o_c03)")
