"""C02 part (tie T): an application that asked for keep-alive (`connection.keep_alive(true)`) and then stays silent for longer
than the idle timeout on a healthy network still has a live connection afterwards: the next stream is delivered. (RFC 9000
10.1.2: an endpoint that wants to keep a connection open sends a PING before the idle timeout expires; s2n-quic's keep-alive
period is derived from the negotiated idle timeout.)"""
import e2e
import e2e_props


def fam_keepalive(rng, i):
    idle = rng.choice([2000, 3000, 5000, 9000])
    other = rng.choice([idle, idle, 30000])
    p = {
        "seed": rng.randrange(1, 2**40), "bidi": rng.choice([0, 1]), "uni": 1, "suni": rng.choice([0, 1]), "size": rng.choice([500, 20000]),
        "chunk": 1000, "delay_ms": rng.choice([5, 25, 60]), "c.max_idle_ms": idle, "s.max_idle_ms": other,
        "quiet_ms": idle * rng.choice([2, 3, 5]) + rng.choice([0, 700]), "deadline_ms": 200000,
    }
    if i % 3 == 2:
        p["c.max_idle_ms"], p["s.max_idle_ms"] = other, idle
    return e2e_props._nz(p)


e2e_props.FAMILIES.setdefault("keepalive", fam_keepalive)


def o_c02_keepalive(tr):
    bad = e2e.o_c02_term(tr)
    errs = [r for r in tr.of("app") if r.what == "err"]
    if errs:
        bad.append(("e2e:c02:keepalive-connection-lost", f"keep-alive was on and the network healthy, yet after the quiet phase the application saw: "
                    f"{errs[0].ep} {' '.join(errs[0].args)[:200]}"))
    on = [r for r in tr.of("app") if r.what == "keep-alive"]
    if on:
        last_open = [r for r in tr.of("app") if r.ep == "c" and r.what == "open" and r.t > on[0].t]
        eofs = {r.args[0] for r in tr.of("app") if r.ep == "s" and r.what == "eof"}
        if last_open and not errs and last_open[-1].args[0] not in eofs:
            bad.append(("e2e:c02:keepalive-stream-not-delivered", f"the stream opened after the quiet phase ({last_open[-1].args[0]}) never completed at the server"))
    return bad


def run(ctx):
    ctx.assumptions.append("C02_keepalive: tie T samples real client+server runs on a fault-free simulated network")
    quiet = {"n": 0}

    def nt(tr, s):
        ok = any(r.what == "keep-alive" for r in tr.of("app")) and s["end"] == "ok"
        quiet["n"] += 1 if ok else 0
        return ok

    e2e_props.run_family(ctx, "keepalive", [o_c02_keepalive], 12, 200, nontrivial=nt,
                         name="T:keepalive: with keep-alive on, a connection survives application silence longer than the idle timeout and delivers the next stream")
    ctx.oblige("coverage", f"keepalive: {quiet['n']} runs went through the quiet phase", quiet["n"] >= 6, "the quiet phase is not reached")
