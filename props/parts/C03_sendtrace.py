"""C03 part (Lean side + tie T through the trace acceptor): send-side flow control.

Theorems: QuicProofs.Props.C03SendFlow (component models SendFlow / OpenIds by induction over all op
histories + soundness of the trace acceptor `send-trace` w.r.t. the property stated over the raw op list).
Tie G: the clamp in `acquire_flow_control_window` and the `max` in `on_max_data`/`set_max_stream_data`.
Tie T: real end-to-end traces (families flowctl, mixed) are replayed, per endpoint, through the acceptor;
every step the real endpoint took must be admissible."""
import e2e
import e2e_ops_send
import e2e_props
from vlib import cargo_build, step_extract, step_lean, tier_n

PROP_MODULES = ["QuicProofs.Props.C03SendFlow"]
BRIDGES = ["QuicProofs.Bridge.SendFlow"]
FAMILY_N = (("flowctl", 18, 400), ("mixed", 14, 400))


def scenarios(ctx, salt):
    out = []
    for fam, nq, nt in FAMILY_N:
        rng = ctx.rng(f"e2e-sendtrace/{salt}/{fam}")
        for i in range(tier_n(ctx, nq, nt)):
            p = e2e_props.FAMILIES[fam](rng, i)
            if i % 3 == 1:
                # a small send buffer makes the application slower than the network: writes interleave with
                # transmissions, so a FIN / final size announced before the application is done would show
                p["c.send_buffer"] = p["s.send_buffer"] = rng.choice([1000, 1500, 4000])
            out.append((fam, p))
    return out


def run_traces(ctx, prop):
    ok, out = cargo_build("vh-e2e")
    if not ok:
        ctx.oblige("build", "vh-e2e builds against /repo's working tree", False, out)
        return None
    scen = scenarios(ctx, "shared")     # C03 and C12 replay the same real runs through the same acceptor
    traces = e2e.run_many([p for _, p in scen])
    for (fam, _), tr in zip(scen, traces):
        s = e2e_props.summarize(tr)
        ctx.count(f"send-trace:{fam}:end:{s['end']}")
        if s["end"] == "ok" and s["bytes_read"] > 0:
            ctx.nontrivial.add(f"send-trace|{fam}|{sorted(tr.params.items())}")
        if len(ctx.samples) < 10:
            ctx.sample({"send_trace_family": fam, **s})
    ctx.traces_validated += len(traces)
    return traces


def run(ctx):
    ctx.assumptions.append("send-trace acceptor (Lean) is tied to /repo by replaying real endpoint histories (tie T, sampling); "
                           "the component models SendFlow/OpenIds are hand transcriptions of stream/send_stream.rs, "
                           "outgoing_connection_flow_controller.rs, controller/local_initiated.rs (private internals: no differential run), "
                           "tie G pins the clamp / max tokens")
    step_extract(ctx, ["send_flow"])
    step_lean(ctx, PROP_MODULES, BRIDGES)
    traces = run_traces(ctx, "C03")
    if traces is None:
        return
    e2e_ops_send.check_traces(ctx, traces, "C03", "flowctl+mixed")
