"""C20 part (core machines also relevant to C12): the protocol STATE MACHINES written with the `event!` / `is!` macros of
quic/s2n-quic-core/src/state.rs: stream `Sender` / `Receiver` (RFC 9000 §3.1 / §3.2, used by dc send/recv `State` to decide what
may be sent / delivered), the dc send / recv worker `waiting::State`, the dc stream handshake `State`, the transport dc `Manager`
`State`.

  * tie G (TRANSLATOR) tools/extractors/states.py parses every `event! { name(A | B => C, ..); }` block, the enum, `#[default]`
              and the `is!` predicates of those files from /repo's current source and regenerates
              lean/QuicModel/Generated/States.lean (one generated machine per file; `step` = the macro semantics
              Quic.State.step — first matching arm wins, NoOp iff ONE arm and already in its target, else InvalidTransition —
              applied to the generated arm table; the macro itself is fingerprinted, its `targets.len() == 1` literal translated)
  * theorems  QuicProofs.Props.C20States are stated about the GENERATED machines (no pinned copy): agreement with the
              hand-written RFC 9000 figures 2/3, the explicit list of extra arrows / the extra state, absorbing terminal states,
              strictly increasing rank (weak + SCC for the dc recv worker, which polls in a cycle by design) for all event lists,
              no data state after a reset state, DataRecvd only after DataSent (false for the core type because of
              ResetQueued -> DataRecvd: counterexample + the guarded version dc actually uses)
  * tie D     harness/vh-core `stream_state`: the REAL public `Sender` / `Receiver`: the full (state, event) table, every event
              sequence of length <= 3 and random longer histories; state after, result kind (Ok / NoOp / InvalidTransition, the
              error's `current` and `event` fields) and all `is_*` predicates compared with the Lean driver running the generated
              machines.  The dc-private machines (worker / handshake / manager enums are not public) have NO differential run:
              for them the translator is the tie (plus, where the repo ships an insta snapshot produced by the real macro's
              `test_transitions()`, the snapshot table is compared with the generated machine).
  * oracle    tools/gen/states.py: RFC 9000 figure 2 / 3 as independent python tables on the implementation's outputs
"""
from vlib import *

PROP_MODULES = ["QuicProofs.Props.C20States"]
BRIDGES = ["QuicProofs.Bridge.States"]
HARNESS = "vh-core"
COMP = "stream_state"


def run(ctx):
    ctx.rule += (" | states: the full (state,event) table of Sender and Receiver, all event sequences of length <= 3 from the default "
                 "state, random histories of 1..13 events (forward-biased and uniform); non-trivial = an accepted transition, distinct "
                 "by (event or table cell, state reached)")
    ctx.assumptions += [
        "states: Quic.State.step transcribes the `__state_transition__` macro by hand (validated by D on the public Sender/Receiver, "
        "single-arm events only; multi-arm events exist only in the dc-private handshake / manager machines, compared with the repo's insta "
        "snapshots where present); the translator's regex parser of `event!`/`is!`/enum syntax is trusted to fail loudly on shapes it does not know",
        "states: the dc worker / handshake / manager enums are private: no differential run, the translator is the tie; HOW the workers "
        "drive these machines (which event is raised when) is outside this part",
    ]
    step_extract(ctx, ["states"])
    lean_ok = step_lean(ctx, PROP_MODULES, BRIDGES)
    ok, out = cargo_build(HARNESS)
    if not ok:
        ctx.oblige("build", "vh-core builds against /repo's working tree", False, out)
        return
    if not lean_ok:
        ctx.escalated = True
    step_diff(ctx, HARNESS, COMP, "states", tier_n(ctx, 6000, 200000))
    snapshot_check(ctx)


SNAPS = [
    ("dc_handshake", "dc/s2n-quic-dc/src/stream/shared/snapshots/s2n_quic_dc__stream__shared__handshake__tests__snapshots.snap"),
    ("sender", "quic/s2n-quic-core/src/stream/state/snapshots/s2n_quic_core__stream__state__send__tests__snapshots.snap"),
    ("receiver", "quic/s2n-quic-core/src/stream/state/snapshots/s2n_quic_core__stream__state__recv__tests__snapshots.snap"),
]


def parse_snap(txt):
    """insta debug snapshot of `test_transitions()`: `State: { event: Ok( Next, ), event: Err( NoOp { current: X, }, ), .. }`"""
    import re
    body = txt.split("---", 2)[-1]
    rows = {}
    cur = None
    toks = re.findall(r"[A-Za-z_][A-Za-z0-9_]*|[{}(),:]", body)
    # small hand parser over the token stream
    i = 0
    depth = 0
    while i < len(toks):
        tk = toks[i]
        if tk == "{":
            depth += 1
        elif tk == "}":
            depth -= 1
        elif depth == 1 and re.match(r"[A-Za-z_]", tk) and toks[i + 1] == ":":
            cur = tk
            i += 1
        elif depth == 2 and re.match(r"[A-Za-z_]", tk) and toks[i + 1] == ":" and toks[i + 2] in ("Ok", "Err"):
            ev = tk
            if toks[i + 2] == "Ok":
                rows[(cur, ev)] = ("moved", toks[i + 4])
                i += 4
            else:
                k = toks[i + 4]
                rows[(cur, ev)] = ("noop" if k == "NoOp" else "invalid", cur)
                # skip to the closing paren of Err(
                d = 0
                j = i + 3
                while j < len(toks):
                    if toks[j] in "({":
                        d += 1
                    elif toks[j] in ")}":
                        d -= 1
                        if d == 0:
                            break
                    j += 1
                i = j
        i += 1
    return rows


def snapshot_check(ctx):
    import os
    total, bad, used = 0, [], []
    for mach, rel in SNAPS:
        p = os.path.join(ctx.repo if hasattr(ctx, "repo") else REPO, rel)
        if not os.path.exists(p):
            continue
        try:
            rows = parse_snap(open(p).read())
        except Exception as e:
            bad.append(f"{rel}: not parsed ({e!r})")
            continue
        if not rows:
            bad.append(f"{rel}: no rows")
            continue
        keys = sorted(rows)
        lines = [f"at {mach} {s} {e}" for s, e in keys]
        rc, out, err = run_lines([DRIVER, COMP], lines)
        used.append(f"{mach}:{len(keys)}")
        total += len(keys)
        for (s, e), o in zip(keys, out):
            want = "ok %s %s" % rows[(s, e)]
            if o != want:
                bad.append(f"{mach} {s} {e}: snapshot (real macro) {want!r} vs generated machine {o!r}")
    ctx.evaluations += total
    ctx.oblige("correspond", f"states: the repo's insta snapshots of `test_transitions()` (output of the REAL macro, incl. the multi-arm "
               f"events of the dc handshake) equal the generated machines' tables ({', '.join(used) or 'no snapshot found'})",
               not bad and total > 0, "; ".join(bad[:5]))
