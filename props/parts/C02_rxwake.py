"""C02 part (Lean + tie G): the stream read waiter under EVERY request of the transport-level request API (any low watermark,
any request size) — theorems of lean/QuicProofs/Props/C02RxWake.lean over the model `Quic.Conn.Wakers.ReadWaiter`, tied to
/repo's current text by tools/extractors/rx_wake.py (the watermark expressions of `ReceiveStream::on_data` and
`ReceiveStream::poll_request` are TRANSLATED to Lean on every run) and lean/QuicProofs/Bridge/RxWake.lean (translated = model, for
all arguments).  When the bridge breaks, a python twin of the model that evaluates the SAME translated expressions searches small
histories for a lost wake-up (a parked reader whose own request would now be served) and reports it as the replay."""
from vlib import *

PROP_MODULES = ["QuicProofs.Props.C02RxWake"]
BRIDGES = ["QuicProofs.Bridge.RxWake"]


def twin_search(fns, deep=False):
    """BFS over histories of the ReadWaiter model with the translated threshold functions.
    -> (history, explanation) of a lost wake-up, or None."""
    wake_thr = eval(fns["wakeThreshold"])
    poll_thr = eval(fns["pollThreshold"])
    fcw_of = eval(fns["fcWatermark"])
    need_data = fns.get("wakeRequiresData", True)
    windows = [0, 1, 2, 4, 8, 4096] if not deep else [0, 1, 2, 3, 4, 6, 8, 16, 4096, 65536]
    lows = [0, 1, 2, 3, 5, 9, 8192]
    wants = [0, 1, 4, 100000]

    def poll(st, lw, want):
        recv, cons, final, state, waiter, window = st
        if state != "receiving":
            return (recv, cons, final, state, None, window)
        ln = recv - cons
        enough = ln >= poll_thr(lw, fcw_of(window))
        take = min(want, ln) if enough else 0
        should = (want > 0 and take == 0) if enough else True
        cons += take
        if final is not None and final == cons:
            state, waiter = "dataRead", None
        if should:
            waiter = lw
        return (recv, cons, final, state, waiter, window)

    def data(st, n, fin):
        recv, cons, final, state, waiter, window = st
        if state != "receiving":
            return st, False
        # flow control: the peer may send up to consumed + window (MAX_STREAM_DATA = released + desired window)
        if n > cons + window or (final is not None and (n > final or (fin is not None and fin != final))) or (fin is not None and (fin < recv or n > fin)):
            return None, False
        recv = max(recv, n)
        if final is None:
            final = fin
        ln = recv - cons
        should = False
        if waiter is not None:
            should = (ln > 0 or not need_data) and ln >= wake_thr(waiter, fcw_of(window))
        should = should or (final is not None and final == recv)
        if fin is not None and final == cons:
            state = "dataRead"
        woke = False
        if should and waiter is not None:
            waiter, woke = None, True
        return (recv, cons, final, state, waiter, window), woke

    def lost(st):
        recv, cons, final, state, waiter, window = st
        if waiter is None or state != "receiving":
            return None
        ln = recv - cons
        # the reader's own request, issued again now, would be served: data is buffered and the park test passes
        if ln > 0 and ln >= poll_thr(waiter, fcw_of(window)):
            return f"reader parked with low watermark {waiter}, {ln} bytes buffered, window {window} (flow-controller watermark {fcw_of(window)}): " \
                   f"poll_request would serve the request (len >= {poll_thr(waiter, fcw_of(window))}) but on_data did not wake it (needs len >= {wake_thr(waiter, fcw_of(window))})" \
                   + ("; the peer has used its whole flow-control window, so reader and writer wait for each other" if ln >= window else "")
        # whatever the request: once the peer has filled the whole window it cannot send more until the reader reads
        if final is None and ln > 0 and ln >= window:
            return f"reader parked with low watermark {waiter} while the peer has used its whole flow-control window ({ln} of {window} bytes buffered, no FIN): " \
                   f"the reader waits for data the peer may not send, the peer waits for MAX_STREAM_DATA that only a read releases"
        return None

    for window in windows:
        init = (0, 0, None, "receiving", None, window)
        seen = {init}
        frontier = [(init, [f"new window={window}"])]
        for depth in range(4 if not deep else 6):
            nxt = []
            for st, hist in frontier:
                succ = []
                for lw in lows:
                    for want in wants:
                        succ.append((poll(st, lw, want), f"poll_request low_watermark={lw} want={want}"))
                recv, cons = st[0], st[1]
                for n in sorted({recv + 1, recv + 2, cons + window // 2, cons + window, cons + window - 1}):
                    if n < 0 or n < recv:
                        continue
                    for fin in (None, n):
                        st2, woke = data(st, n, fin)
                        if st2 is not None:
                            succ.append((st2, f"on_data contiguous_prefix={n}" + (" fin" if fin is not None else "") + (" -> wake" if woke else " -> no wake")))
                for st2, what in succ:
                    why = lost(st2)
                    if why:
                        return hist + [what], why
                    if st2 not in seen:
                        seen.add(st2)
                        nxt.append((st2, hist + [what]))
            frontier = nxt
    return None


def run(ctx):
    ctx.assumptions += [
        "C02RxWake: model `Quic.Conn.Wakers.ReadWaiter` (hand-written from stream/receive_stream.rs: poll_request l.737-930, on_data l.391-560, "
        "on_reset, wake); buffers abstracted to lengths, high watermark = unlimited (the public API's default); tie G translates the watermark "
        "expressions of both sites and pins the park / wake statement shapes (tools/extractors/rx_wake.py, 8 items)",
        "the stronger `blocked` condition for arbitrary low watermarks is false in the model (low_watermark_beyond_final_size_parks_forever_counterexample); "
        "replayed by hand on the real ReceiveStream in a scratch worktree (harness/hooks-draft/read_low_watermark_after_fin_test.rs: Pending, no wake); "
        "the request is only issuable through the pub(crate) request API, no public-API execution reaches it, so it is an observation, not a finding",
    ]
    rep = step_extract(ctx, ["rx_wake"])
    ok = step_lean(ctx, PROP_MODULES, BRIDGES, extra_targets=())
    sys.path.insert(0, os.path.join(VERIF, "tools"))
    from extractors import rx_wake
    fns = rx_wake.python_twin(REPO)
    ctx.extra["rx_wake_translated"] = fns
    complete = all(k in fns for k in ("wakeThreshold", "pollThreshold", "fcWatermark"))
    if complete:
        found = twin_search(fns, deep=ctx.tier == "thorough" or not ok)
        ctx.evaluations += 1
        ctx.count("rxwake:twin-search", 1)
        if found:
            hist, why = found
            ctx.violation("rxwake:lost-wakeup",
                          "stream read waiter: " + why + ". History (model twin evaluating the expressions now in receive_stream.rs): " + " ; ".join(hist),
                          {"kind": "model-history", "history": hist, "translated": fns,
                           "reproduce_on_code": "in-crate unit test of s2n-quic-transport (stream/receive_stream/tests.rs style): setup_receive_only_test_env "
                                                "with the window above, poll_request(rx request with_low_watermark(..)) with a counting waker, feed_data up to the "
                                                "contiguous prefix above, assert the wake counter"},
                          found_input=True)
            return
    # broken obligations without a failing input are reported by Ctx.finish (no-failing-input-found)
